"""Core vocabulary shared by all property modules."""
import hashlib
import json
import math
import os
import traceback

from . import REPO, VERIF_ROOT


class Violation(Exception):
    """The property under test does not hold for the case being examined."""


class Discard(Exception):
    """The case is outside what the property quantifies over (counted, never a failure)."""

    def __init__(self, reason):
        super().__init__(reason)
        self.reason = reason


class Part:
    """One generated-search component of a property.

    strategy(tier) -> hypothesis strategy of plain-data cases (JSON-able dicts)
    check(case)    -> dict(nontrivial=bool, classes=[str], known=[finding ids], target={name: float})
                      raises Violation / Discard
    """

    def __init__(self, name, strategy, check, budget, floor=None, shrink=None, corpus=None,
                 max_discard=0.6, machine=None, steps=None):
        self.name = name
        self.strategy = strategy
        self.check = check
        self.budget = budget  # {"quick": n, "thorough": n}
        self.floor = floor or {"quick": 2, "thorough": 2}
        self.shrink = shrink or {"quick": True, "thorough": True}
        self.corpus = corpus or []  # list of cases always run first
        self.max_discard = max_discard
        self.machine = machine  # callable(tier, stats) -> RuleBasedStateMachine subclass
        self.steps = steps or {"quick": 12, "thorough": 12}


class Raised:
    """Outcome of a call into the code under test that raised."""

    def __init__(self, exc):
        self.exc = exc
        self.type = type(exc).__name__
        tb = traceback.extract_tb(exc.__traceback__)
        self.frames = [(f.filename, f.lineno, f.name) for f in tb]

    @property
    def from_package(self):
        """True when some frame of the traceback lies in the package under test."""
        pkg = os.path.join(REPO, "pyvaporation")
        return any(f[0].startswith(pkg) for f in self.frames)

    def __repr__(self):
        return "Raised(%s: %s)" % (self.type, str(self.exc)[:120])


def call(fn, *args, **kwargs):
    """Run code under test; exceptions become a Raised value (the oracle decides what they mean).
    BaseException subclasses used by the harness itself (evaluation cap) pass through."""
    try:
        return fn(*args, **kwargs)
    except (Violation, Discard):
        raise
    except Exception as exc:  # noqa: BLE001 - deliberate: classification happens in the oracle
        tb = traceback.extract_tb(exc.__traceback__)
        if tb and os.path.dirname(os.path.abspath(tb[-1].filename)).startswith(os.path.join(VERIF_ROOT, "pvverif")):
            raise  # raised by harness code itself (innermost frame in pvverif): a harness bug, never an outcome of the code under test
        return Raised(exc)


def is_raised(x):
    return isinstance(x, Raised)


def canon(case):
    return json.dumps(case, sort_keys=True, allow_nan=True, default=_default)


def _default(o):
    try:
        import numpy

        if isinstance(o, numpy.generic):
            return o.item()
        if isinstance(o, numpy.ndarray):
            return o.tolist()
    except Exception:  # pragma: no cover
        pass
    return repr(o)


def case_hash(case):
    return hashlib.sha1(canon(case).encode()).hexdigest()[:16]


def finite(x):
    try:
        return math.isfinite(float(x))
    except (TypeError, ValueError, OverflowError):
        return False


def relerr(a, b, scale=None):
    """|a-b| relative to max(|a|,|b|,scale)."""
    a = float(a)
    b = float(b)
    if a == b:
        return 0.0
    if not (math.isfinite(a) and math.isfinite(b)):
        return math.inf
    s = max(abs(a), abs(b), scale or 0.0)
    if s == 0.0:
        return 0.0
    return abs(a - b) / s


def require(cond, msg, *fmt):
    if not cond:
        raise Violation(msg % fmt if fmt else msg)


def require_close(a, b, tol, what, scale=None):
    e = relerr(a, b, scale)
    if not e <= tol:
        raise Violation("%s: %r vs %r (relative error %.3g > %.3g)" % (what, float(a), float(b), e, tol))
    return e


# --------------------------------------------------------------------------- histories (stateful parts)
def history_machine(part_name, make_history, init_strategy, rules, stats, max_ops=12):
    """Builds a hypothesis RuleBasedStateMachine whose rules append plain-data operations to a history and
    apply them to `make_history(init)`; the history object exposes apply(op) (raises Violation), close() and
    summary() -> dict(nontrivial=bool, classes=[...]).  `rules` maps an operation name to a strategy of
    keyword arguments.  A failing history is stored as {"init":..., "ops":[...]} (the replay case)."""
    from hypothesis import strategies as st
    from hypothesis.stateful import RuleBasedStateMachine, initialize, precondition, rule

    class Machine(RuleBasedStateMachine):
        def __init__(self):
            super().__init__()
            self.init = None
            self.ops = []
            self.h = None

        @initialize(init=init_strategy)
        def start(self, init):
            self.init = init
            self.h = make_history(init)

        def _do(self, op):
            self.ops.append(op)
            try:
                self.h.apply(op)
            except Violation as v:
                stats.failure = {"case": {"init": self.init, "ops": list(self.ops)}, "message": str(v), "part": part_name}
                raise

        def teardown(self):
            if self.h is None:
                return
            try:
                summ = self.h.summary()
            finally:
                self.h.close()
            stats.record({"init": self.init, "ops": self.ops}, summ)

    for name, strat in rules.items():
        def make(name=name):
            def r(self, args):
                self._do(dict(args, op=name))
            r.__name__ = "op_" + name
            limit = (lambda self: max_ops(self.init)) if callable(max_ops) else (lambda self: max_ops)
            return precondition(lambda self: self.h is not None and len(self.ops) < limit(self))(rule(args=strat)(r))
        setattr(Machine, "op_" + name, make())
    def idle(self):
        """Keeps the machine alive once the history reached its drawn length (Hypothesis needs an enabled rule)."""

    limit_all = (lambda self: max_ops(self.init)) if callable(max_ops) else (lambda self: max_ops)
    Machine.idle = precondition(lambda self: self.h is not None and len(self.ops) >= limit_all(self))(rule()(idle))
    Machine.__name__ = "History_" + part_name.replace("-", "_")
    return Machine


def replay_history(make_history, case):
    h = make_history(case["init"])
    try:
        for op in case["ops"]:
            h.apply(op)
        return h.summary()
    finally:
        h.close()
