"""C05 - non-ideal models follow the fitted permeance functions they return."""
import math

from hypothesis import strategies as st

from .. import build, gen, procs
from ..core import Discard, Part, Violation, call, is_raised, relerr, require
from ..observe import EvaluationCap, Trace
from ..refmodels import R, convert_units, to_weight

ID = "C05"
RULE = ("cases: composition-dependent curve sets (1..3 temperatures x 3..7 points, built from permeances or fluxes, mass or mole fractions, "
        "+-2% noise) x orders n<=2, m<=1 x with/without initial permeances (kg, SI or GPU) x with/without zero points x modelling temperature "
        "equal to / different from the curve temperature x 3 permeate modes x isothermal / self-cooling / programme process (1..6 steps) and "
        "the non-ideal diffusion curve; reference fits come from a curve set rebuilt from the case (never the object handed to the model). "
        "the non-ideal diffusion curve. non-trivial = model returned, >= 2 steps and a fitted function varies by > 1% over the visited states; "
        "distinct = SHA-1 of the case JSON")
ASSUMPTIONS = ["reference fits = the public find_best_fit on Measurements extracted from the same curve set with the same orders (fits are deterministic)",
               "single-curve sets: compared as functions after Arrhenius re-scaling with Membrane.calculate_activation_energy, rel 1e-9 on a 5x5 grid",
               "isothermal model: the fitted function may be evaluated at the feed composition of step k or of step k-1 (the statement allows both), "
               "but consistently for all steps"]


def _ref_fits(case, s, kind):
    from pyvaporation import Measurements, find_best_fit

    o = case["orders"]
    # the reference fits come from a curve set built afresh from the case, never from the object that was handed to the model
    # (a model that rewrites the caller's curves would otherwise move the reference along with itself)
    fresh = procs.build_curve_set(case["curves"], s.mix)
    single = len(fresh.diffusion_curves) == 1
    if single:
        iz = case.get("include_zero", False) if kind == "nonideal-curve" else False
        m1 = m2 = 0
    else:
        iz = case.get("include_zero", False)
        m1, m2 = o["m1"], o["m2"]
    f1 = find_best_fit(Measurements.from_diffusion_curves_first(fresh), include_zero=iz, component_index=0, n=o["n1"], m=m1)
    f2 = find_best_fit(Measurements.from_diffusion_curves_second(fresh), include_zero=iz, component_index=1, n=o["n2"], m=m2)
    return f1, f2, single


def _expected_fn(ref, single, rescale, t0, ea):
    """Callable (x,T) the model is expected to follow."""
    if not (single and rescale):
        return lambda x, t: float(ref(x, t))
    return lambda x, t: float(ref(x, t0)) * math.exp(-ea / R * (1.0 / t - 1.0 / t0))


def check_follow(case, s, model_perms, ws, ts, fns, lag_allowed, what):
    """(ii)+(iii): permeances[k][i] = FR_i * f_i(x_ref(k), T[k]) with constant FR_i."""
    n = len(model_perms)
    varies = False
    for i in (0, 1):
        f = fns[i]
        init = None
        if case.get("initial"):
            mw = (s.m1, s.m2)[i]
            init = case["initial"]["p%d" % (i + 1)]
            got0 = model_perms[0][i]
            require(got0.units == build.KG and relerr(got0.value, init) <= 1e-12,
                    "%s: permeances[0][%d] = %r, supplied initial permeance is %r kg/(m2 h kPa)", what, i, got0, init)
        f0 = f(ws[0], ts[0])
        if not (math.isfinite(f0) and f0 > 1e-30):  # (a fit that returns ~1e-83 for data of order 1e-3 is degenerate as well)
            raise Discard("fitted function is not positive at the initial state (degenerate fit, no constant factor defined)")
        fr = 1.0 if init is None else init / f0
        options = [("same-step", lambda k: ws[k])]
        if lag_allowed:
            options.append(("previous-step", lambda k: ws[max(k - 1, 0)]))
        errors = {}
        for name, xref in options:
            worst = 0.0
            for k in range(n):
                expect = fr * f(xref(k), ts[k])
                got = model_perms[k][i].value
                if k == 0 and init is not None:
                    continue
                e = relerr(got, expect) if expect > 0 else (0.0 if got == 0 else math.inf)
                worst = max(worst, e)
            errors[name] = worst
        best = min(errors.values())
        if not best <= 1e-9:
            k_bad = next(k for k in range(n) if relerr(model_perms[k][i].value, fr * f(ws[k], ts[k])) > 1e-9 and not (k == 0 and init is not None))
            raise Violation("%s: permeance %d used at step %d is %r but fitted function x constant factor gives %r "
                            "(factor %r, feed mass fraction %r, temperature %r; worst relative error %r)"
                            % (what, i + 1, k_bad, model_perms[k_bad][i].value, fr * f(ws[k_bad], ts[k_bad]), fr, ws[k_bad], ts[k_bad], errors))
        vals = [f(ws[k], ts[k]) for k in range(n)]
        if max(vals) > 1.01 * min(vals) > 0:
            varies = True
    return varies


def check_process(case):
    s = procs.setup(case)
    classes = procs.classes_of(case)
    kind = case["kind"]
    try:
        with Trace(s.pv, cap=60000, keep=False):
            dt = procs.step_length(case, s)
            model = procs.run(case, s, dt)
    except EvaluationCap:
        raise Discard("evaluation cap reached (termination is C10's subject)")
    if is_raised(model):
        raise Discard("model raised %s" % model.type)
    ref1, ref2, single = _ref_fits(case, s, kind)
    fits = model.permeance_fits
    require(fits is not None and len(fits) == 2, "non-ideal model returned permeance_fits = %r", fits)
    t0 = s.curves.diffusion_curves[0].feed_temperature
    rescale = single and (kind == "nonideal-noniso" or t0 != case["T"])
    eas = (0.0, 0.0)
    if rescale:
        eas = (float(s.mem.calculate_activation_energy(s.mix.first_component)), float(s.mem.calculate_activation_energy(s.mix.second_component)))
    fns = []
    for i, (fit, ref) in enumerate(((fits[0], ref1), (fits[1], ref2))):
        exp_fn = _expected_fn(ref, single, rescale, t0, eas[i])
        if not (single and rescale):
            require(fit.n == ref.n and fit.m == ref.m, "returned fit %d has orders (%r,%r), best-fit search gives (%r,%r)", i + 1, fit.n, fit.m, ref.n, ref.m)
            for name in ("alpha",):
                require(relerr(getattr(fit, name), getattr(ref, name)) <= 1e-12, "returned fit %d: %s = %r, best-fit search gives %r", i + 1, name,
                        getattr(fit, name), getattr(ref, name))
            for name in ("a", "b"):
                va, vb = list(getattr(fit, name)), list(getattr(ref, name))
                require(len(va) == len(vb) and all(relerr(x, y) <= 1e-12 for x, y in zip(va, vb)),
                        "returned fit %d: coefficients %s = %r, best-fit search gives %r", i + 1, name, va, vb)
        # as functions on a 5x5 grid
        for x in (0.05, 0.275, 0.5, 0.725, 0.95):
            for t in (t0, case["T"], 300.0, 340.0, 370.0):
                a, b = float(fit(x, t)), exp_fn(x, t)
                if math.isfinite(a) and math.isfinite(b):
                    require(relerr(a, b) <= 1e-9, "returned fit %d at (x=%r, T=%r) = %r, expected %r (%s)", i + 1, x, t, a, b,
                            "best fit at the curve temperature x Arrhenius factor" if rescale else "public best-fit search")
        fns.append(lambda x, t, _f=fit: float(_f(x, t)))
    ws = [c.p for c in model.feed_compositions]
    ts = [float(t) for t in model.feed_temperature]
    varies = check_follow(case, s, model.permeances, ws, ts, fns, lag_allowed=(kind == "nonideal-iso"), what=kind)
    classes.append("single-curve" if single else "multi-curve")
    if rescale:
        classes.append("arrhenius-rescaled")
    nontrivial = case["steps"] >= 2 and varies and (not rescale or abs(case["T"] - t0) > 1.0 or kind == "nonideal-noniso")
    return {"nontrivial": nontrivial, "classes": classes}


@st.composite
def curve_strategy(draw):
    c = draw(procs.process_case(kinds=("nonideal-iso",), max_steps=5))
    c["kind"] = "nonideal-curve"
    c["direction"] = draw(st.sampled_from([-1.0, 1.0]))
    c["span"] = draw(gen.uniform(0.05, 0.9))
    if draw(st.booleans()) and len(c["curves"]["curves"]) == 1:
        c["T"] = c["curves"]["curves"][0]["T"]  # modelling temperature equal to the curve temperature
    return c


def check_curve(case):
    s = procs.setup(case)
    kind = "nonideal-curve"
    classes = [kind, case["model"], case["perm"]["mode"], "curves=%d" % len(case["curves"]["curves"]),
               "initial-permeances" if case.get("initial") else "no-initial-permeances"]
    n = case["steps"]
    w0 = s.w0
    room = (1.0 - w0 - 0.01) if case["direction"] > 0 else (w0 - 0.01)
    delta = case["direction"] * case["span"] * room / (n + 2)
    o = case["orders"]
    try:
        with Trace(s.pv, cap=60000, keep=False):
            dc = call(s.pv.non_ideal_diffusion_curve, diffusion_curve_set=s.curves, feed_temperature=case["T"],
                      initial_feed_composition=build.composition(s.x, s.basis), delta_composition=delta, number_of_steps=n,
                      permeate_temperature=case["perm"]["T"], permeate_pressure=case["perm"]["p"], initial_permeances=s.initial,
                      precision=case["precision"], calculation_type=case["model"], n_first=o["n1"], n_second=o["n2"],
                      m_first=o["m1"], m_second=o["m2"], include_zero=case.get("include_zero", False))
    except EvaluationCap:
        raise Discard("evaluation cap reached (termination is C10's subject)")
    if is_raised(dc):
        raise Discard("non-ideal curve raised %s" % dc.type)
    ref1, ref2, single = _ref_fits(case, s, kind)
    t0 = s.curves.diffusion_curves[0].feed_temperature
    rescale = single and t0 != case["T"]
    eas = (0.0, 0.0)
    if rescale:
        eas = (float(s.mem.calculate_activation_energy(s.mix.first_component)), float(s.mem.calculate_activation_energy(s.mix.second_component)))
    fns = [_expected_fn(ref1, single, rescale, t0, eas[0]), _expected_fn(ref2, single, rescale, t0, eas[1])]
    ws = [c.to_weight(s.mix).p for c in dc.feed_compositions]
    require(len(dc.permeances) == len(ws) == n + 1, "non-ideal curve has %d compositions and %d permeance pairs for %d steps", len(ws), len(dc.permeances), n)
    for k in range(1, len(ws)):
        require(abs(ws[k] - (ws[k - 1] + delta)) <= 1e-12, "composition grid: point %d is %r, expected %r", k, ws[k], ws[k - 1] + delta)
    varies = check_follow(case, s, dc.permeances, ws, [case["T"]] * len(ws), fns, lag_allowed=False, what=kind)
    classes.append("single-curve" if single else "multi-curve")
    if rescale:
        classes.append("arrhenius-rescaled")
    elif single:
        classes.append("at-curve-temperature")
    return {"nontrivial": varies and n >= 1 and (not rescale or abs(case["T"] - t0) > 1.0), "classes": classes}


@st.composite
def process_strategy(draw):
    c = draw(procs.process_case(kinds=("nonideal-iso", "nonideal-noniso"), removal=(1e-4, 0.15), max_steps=6))
    if draw(st.integers(0, 9)) < 3:  # modelling starts exactly at a curve temperature (the "equal to the curve temperature" class)
        c["T"] = draw(st.sampled_from([cv["T"] for cv in c["curves"]["curves"]]))
        if c["perm"]["mode"] == "temperature":
            c["perm"]["T"] = min(c["perm"]["T"], c["T"])
    return c


PARTS = [
    Part("process", lambda tier: process_strategy(), check_process,
         {"quick": 280, "thorough": 6000}, floor={"quick": 25, "thorough": 600}, shrink={"quick": False, "thorough": True}),
    Part("curve", lambda tier: curve_strategy(), check_curve, {"quick": 160, "thorough": 5000}, floor={"quick": 20, "thorough": 600},
         shrink={"quick": False, "thorough": True}),
]
