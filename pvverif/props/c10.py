"""C10 - the flux calculation always terminates (bounded form, DESIGN.md section 6 C10)."""
import json
import os

from hypothesis import strategies as st

from .. import VERIF_ROOT, build, gen
from ..core import Discard, Part, Violation, call, is_raised
from ..observe import EvaluationCap, Trace
from ..solver import make_pv, solver_kwargs

ID = "C10"
CAP = 50000  # driving-force evaluations per flux calculation
HARD = 400000
RULE = ("cases: the solver domain of C02 (8 built-in + synthetic mixtures x NRTL/UNIQUAC x 3 permeate modes x permeances "
        "1e-6..1 x feed fraction in (0,1) x T 273..400 K x permeate temperature 120 K..T_feed (30%% within 5 K of the feed) "
        "x permeate pressure 0..100 kPa x precision 1e-8..1e-3), weighted to UNIQUAC + permeate temperature, plus ideal "
        "process / curve calls of 1..12 steps, plus the corpus of inputs that did not terminate on the pinned tree. "
        "Oracle: every flux calculation uses at most %d driving-force evaluations or raises; at the cap the iterate trace is "
        "classified (cycle/stagnation = violation, still contracting = continue to %d then inconclusive). "
        "non-trivial = permeate temperature or pressure>0 and >= 3 evaluations (the loop iterated); distinct = SHA-1 of the case JSON"
        % (CAP, HARD))
ASSUMPTIONS = ["termination is decided in bounded form: an unbounded loop that makes no counted driving-force evaluation "
               "would only trip the shard watchdog (exit 2, inconclusive)",
               "evaluations are counted by a harness-side wrapper on the Pervaporation instance and on the module-level "
               "get_partial_pressures name; no source hook"]


def _classify(trace_evals):
    """At the cap: is the iteration still contracting?  d_j = |y_{j+1} - y_j|."""
    ys = [e[0] for e in trace_evals if e[0] is not None]
    if len(ys) < 2100:
        return "stagnant"
    d = [abs(ys[i + 1] - ys[i]) for i in range(len(ys) - 2001, len(ys) - 1)]
    prev, last = min(d[:1000]), min(d[1000:])
    if last != last or prev != prev:
        return "stagnant"
    return "contracting" if last < 0.999 * prev else "stagnant"


def run_capped(fn, pv, what, case, nsolve=None):
    """Runs fn() under the cap; returns (result|Raised, trace).  nsolve = number of flux calculations a model with a
    finite number of steps needs: the whole call may then use at most (nsolve + 2) x CAP evaluations."""
    cap = CAP
    while True:
        try:
            with Trace(pv, cap=cap, keep=True, total_cap=None if nsolve is None else (nsolve + 2) * CAP) as tr:
                out = call(fn)
            return out, tr
        except EvaluationCap as e:
            if tr.total_exceeded:
                raise Violation("%s: more than %d driving-force evaluations in total (%d flux calculations started) without returning or "
                                "raising" % (what, (nsolve + 2) * CAP, tr.calls))
            verdict = _classify(tr.evals)
            if verdict == "stagnant" or cap >= HARD:
                if verdict == "stagnant":
                    ys = [y for y, _ in tr.evals[-4:]]
                    raise Violation("%s: more than %d driving-force evaluations in one flux calculation without "
                                    "convergence (iterates cycle/stagnate; last permeate fractions %r)" % (what, e.count - 1, ys))
                raise Discard("inconclusive: still contracting at %d evaluations" % HARD)
            cap = HARD


def check_solver(case):
    pv, mix = make_pv(case)
    out, tr = run_capped(lambda: pv.calculate_partial_fluxes(**solver_kwargs(case)), pv, "calculate_partial_fluxes", case)
    n = tr.count
    classes = [case["model"], case["perm"]["mode"], "builtin" if "builtin" in case["mixture"] else "synthetic",
               "raised" if is_raised(out) else "returned",
               "evals<3" if n < 3 else "evals<10" if n < 10 else "evals<100" if n < 100 else "evals<1e4" if n < 10000 else "evals>=1e4"]
    if case["perm"]["mode"] == "temperature" and case["T"] - case["perm"]["T"] <= 5.0:
        classes.append("near-equilibrium")
    nontrivial = n >= 3 and (case["perm"]["mode"] == "temperature" or (case["perm"]["p"] or 0) > 0)
    return {"nontrivial": nontrivial, "classes": classes, "target": {"evaluations": float(n)}}


def solver_strategy(tier):
    hard = gen.solver_case(models=("UNIQUAC",), modes=("temperature",))
    return st.one_of(gen.solver_case(), gen.solver_case(modes=("temperature", "pressure")), hard, hard)


# ----------------------------------------------------------------------- models with a finite number of steps
@st.composite
def model_strategy(draw):
    base = draw(gen.solver_case(modes=("temperature", "pressure", "temperature")))
    return dict(base, kind=draw(st.sampled_from(["iso", "noniso", "curve"])), steps=draw(st.integers(1, 12)),
                removal=draw(gen.loguniform(1e-4, 0.2)),
                xs=draw(st.lists(gen.fraction(), min_size=1, max_size=6)))


def check_model(case):
    pv, mix = make_pv(case)
    cond = {"area": 1.0, "T": case["T"], "amount": 1.0, "x": case["x"], "basis": case["basis"],
            "Tp": case["perm"]["T"], "pp": case["perm"]["p"]}
    # step length from the vacuum flux scale so that `removal` of the feed leaves per step
    j0 = call(pv.calculate_partial_fluxes, feed_temperature=case["T"], composition=build.composition(case["x"], case["basis"]),
              calculation_type=case["model"])
    if is_raised(j0) or not (j0[0] + j0[1] > 0):
        raise Discard("no vacuum flux scale")
    dt = case["removal"] / float(j0[0] + j0[1])
    if case["kind"] == "curve":
        fn = lambda: pv.ideal_diffusion_curve(case["T"], [build.composition(x, case["basis"]) for x in case["xs"]],
                                              case["perm"]["T"], case["perm"]["p"], case["precision"], case["model"])
        nsolve = len(case["xs"])
    elif case["kind"] == "iso":
        fn = lambda: pv.ideal_isothermal_process(case["steps"], dt, build.conditions(cond), case["precision"], case["model"])
        nsolve = case["steps"]
    else:
        fn = lambda: pv.ideal_non_isothermal_process(build.conditions(cond), case["steps"], dt, case["precision"], case["model"])
        nsolve = case["steps"]
    out, tr = run_capped(fn, pv, "%s model (%d flux calculations)" % (case["kind"], nsolve), case, nsolve=nsolve)
    classes = [case["kind"], case["model"], case["perm"]["mode"], "raised" if is_raised(out) else "returned"]
    return {"nontrivial": tr.calls >= 1 and tr.count >= 3 * tr.calls, "classes": classes,
            "target": {"max_evaluations": float(max(tr.per_call or [0]))}}


def check_nonideal(case):
    """Non-ideal process models (finite number of steps) under the same evaluation cap."""
    from .. import procs

    s = procs.setup(case)
    try:
        with Trace(s.pv, cap=CAP, keep=False):
            dt = procs.step_length(case, s)
    except EvaluationCap:
        raise Violation("step-0 flux calculation of a %s case exceeded %d driving-force evaluations" % (case["kind"], CAP))
    out, tr = run_capped(lambda: _unwrap(procs.run(case, s, dt)), s.pv, "%s model (%d steps)" % (case["kind"], case["steps"]), case,
                         nsolve=case["steps"])
    return {"nontrivial": tr.calls >= 1 and tr.count >= 3 * tr.calls,
            "classes": [case["kind"], case["model"], case["perm"]["mode"], "raised" if is_raised(out) else "returned"],
            "target": {"max_evaluations": float(max(tr.per_call or [0]))}}


def _unwrap(x):
    """procs.run already wraps exceptions into Raised; run_capped expects a plain callable result."""
    if is_raised(x):
        raise x.exc
    return x


# ----------------------------------------------------------------------- small-amplitude cycles (constructed, not sampled)
def check_bifurcation(case):
    """Locates, by bisection on the permeate temperature, the boundary between convergence and a 2-cycle of the iteration map,
    measures the cycle amplitude A just beyond it and asks for a precision p with p < A < 10 p (and A/30, 3A): whatever the
    amplitude-to-precision ratio, the calculation must return or raise within the cap."""
    pv, mix = make_pv(case)
    with Trace(pv, cap=10, keep=False) as t0:
        pass
    if not t0.hooked:
        raise Discard("unobservable: iterate trace not available (internal method not found)")
    probe = dict(case, precision=1e-7)

    def run(tp, prec=None):
        c = dict(probe if prec is None else dict(case, precision=prec), perm={"mode": "temperature", "T": tp, "p": None})
        out, tr = run_capped(lambda: pv.calculate_partial_fluxes(**solver_kwargs(c)), pv, "calculate_partial_fluxes near a period-doubling "
                             "point (permeate temperature %r, precision %r)" % (tp, c["precision"]), c)
        return out, tr

    cyc = lambda o: is_raised(o) and "converge" in str(o.exc)
    # scan the permeate temperature for a non-convergent point with a convergent neighbour (either side)
    grid = [case["perm"]["T"]] + [case["T"] - d for d in (0.5, 1.0, 2.0, 4.0, 8.0, 15.0, 25.0, 40.0, 60.0, 90.0, 130.0, 180.0) if case["T"] - d >= 120.0]
    grid = sorted(set(grid))
    res = [run(tp) for tp in grid]
    hi = lo = None
    for k in range(len(grid)):
        if cyc(res[k][0]):
            for nb in (k - 1, k + 1):
                if 0 <= nb < len(grid) and not is_raised(res[nb][0]):
                    hi, tr_hi, lo = grid[k], res[k][1], grid[nb]
                    break
        if hi is not None:
            break
    if hi is None:
        # the cycle band is narrow (~0.1 K) and sits where convergence gives way to rejection: bisect that transition and take the
        # first non-convergent point met on the way
        for k in range(len(grid) - 1):
            if not is_raised(res[k][0]) and is_raised(res[k + 1][0]):
                a, b = grid[k], grid[k + 1]
                for _ in range(12):
                    mid = 0.5 * (a + b)
                    o, t = run(mid)
                    if cyc(o):
                        hi, tr_hi, lo = mid, t, a
                        break
                    if is_raised(o):
                        b = mid
                    else:
                        a = mid
                break
    if hi is None:
        raise Discard("no non-convergent point with a convergent neighbour on the permeate-temperature grid")
    for _ in range(14):
        mid = 0.5 * (lo + hi)
        o, t = run(mid)
        if cyc(o):
            hi, tr_hi = mid, t
        elif is_raised(o):
            raise Discard("boundary not clean")
        else:
            lo = mid
    ys = [e[0] for e in tr_hi.evals[-6:] if e[0] is not None]
    if not tr_hi.hooked:
        raise Discard("unobservable: iterate trace not available (internal method not found)")
    if len(ys) < 4:
        raise Discard("no cycle trace")
    amp = max(abs(ys[i + 1] - ys[i]) for i in range(len(ys) - 1))
    if not (1e-9 < amp < 0.5):
        raise Discard("cycle amplitude out of range")
    n = 0
    for ratio in (3.0, 30.0, 0.3):  # precision = amplitude / ratio
        prec = min(max(amp / ratio, 1e-8), 5e-3)
        run(hi, prec)
        n += 1
    # the models with a finite number of steps, started ON the cycle (the first step already does not converge)
    prec = min(max(amp / 30.0, 1e-8), 5e-4)
    cond = {"area": 1.0, "T": case["T"], "amount": 1.0, "x": case["x"], "basis": case["basis"], "Tp": hi, "pp": None}
    comp = lambda: build.composition(case["x"], case["basis"])
    for what, fn in (
            ("ideal_isothermal_process", lambda: pv.ideal_isothermal_process(3, 1e-3, build.conditions(cond), prec, case["model"])),
            ("ideal_non_isothermal_process", lambda: pv.ideal_non_isothermal_process(build.conditions(cond), 3, 1e-3, prec, case["model"])),
            ("ideal_diffusion_curve", lambda: pv.ideal_diffusion_curve(case["T"], [comp()], hi, None, prec, case["model"]))):
        run_capped(fn, pv, "%s started on a 2-cycle (permeate temperature %r, precision %r)" % (what, hi, prec), case, nsolve=3)
    return {"nontrivial": True, "classes": [case["model"], "amplitude<1e-3" if amp < 1e-3 else "amplitude>=1e-3"], "target": {"amplitude": amp}}


def check_resonance(case):
    """Permeate-pressure mode: at p_c = (P1 pf1 + P2 pf2)/(P1 + P2) (permeance-weighted mean of the feed partial pressures) the
    iteration map is an involution - every start lies on a neutral 2-cycle - and just below p_c convergence is arbitrarily slow.
    The calculation must still return or raise within the cap at and around p_c (constructed class, found by a seeded change)."""
    from pyvaporation.mixtures import get_partial_pressures

    pv, mix = make_pv(case)
    pf = get_partial_pressures(case["T"], mix, build.composition(case["x"], case["basis"]), case["model"])
    pc = (case["p1"] * float(pf[0]) + case["p2"] * float(pf[1])) / (case["p1"] + case["p2"])
    if not (pc == pc and 0 < pc < 1e6):
        raise Discard("critical pressure not representable")
    n = 0
    for eps in case["eps"]:
        c = dict(case, perm={"mode": "pressure", "T": None, "p": pc * (1.0 - eps)})
        out, tr = run_capped(lambda: pv.calculate_partial_fluxes(**solver_kwargs(c)), pv,
                             "calculate_partial_fluxes at permeate pressure %r = critical pressure x (1 - %r)" % (c["perm"]["p"], eps), c)
        n = max(n, tr.count)
    return {"nontrivial": n >= 100, "classes": [case["model"], "max-evals>=1e3" if n >= 1000 else "max-evals<1e3"], "target": {"evaluations": float(n)}}


@st.composite
def resonance_strategy(draw):
    c = draw(gen.solver_case(modes=("pressure",), fractions=gen.mid_fraction()))
    c["eps"] = [0.0] + [draw(gen.signed_log(1e-7, 1e-2)) for _ in range(3)]
    return c


def bifurcation_strategy(tier):
    return gen.solver_case(models=("UNIQUAC", "NRTL", "UNIQUAC"), modes=("temperature",), builtin_share=0.7)


def _corpus():
    path = os.path.join(VERIF_ROOT, "corpus", "C10", "design_phase_cases.json")
    cases = []
    try:
        data = json.load(open(path))
    except Exception:
        return cases
    for e in data.get("nonterminating", []) + data.get("slow", []):
        cases.append({"mixture": {"builtin": e["mixture"]}, "model": e["model"], "T": e["T"], "x": e["x"], "basis": "weight",
                      "perm": ({"mode": "temperature", "T": e["permeate_temperature"], "p": None}
                               if e.get("permeate_temperature") is not None else
                               {"mode": "pressure", "T": None, "p": e["permeate_pressure"]}),
                      "p1": e["p1"], "p2": e["p2"], "precision": e["precision"]})
    return cases


PARTS = [
    Part("solver", solver_strategy, check_solver, {"quick": 6000, "thorough": 200000},
         floor={"quick": 300, "thorough": 10000}, corpus=_corpus(), shrink={"quick": False, "thorough": True}),
    Part("models", lambda tier: model_strategy(), check_model, {"quick": 1200, "thorough": 30000},
         floor={"quick": 60, "thorough": 1500}, shrink={"quick": False, "thorough": True}),
    Part("period-doubling-boundary", bifurcation_strategy, check_bifurcation, {"quick": 320, "thorough": 4000},
         floor={"quick": 30, "thorough": 400}, shrink={"quick": False, "thorough": False}, max_discard=0.9),
    Part("pressure-resonance", lambda tier: resonance_strategy(), check_resonance, {"quick": 640, "thorough": 20000},
         floor={"quick": 60, "thorough": 2000}, shrink={"quick": False, "thorough": False}),
    Part("non-ideal-models", lambda tier: __import__("pvverif.procs", fromlist=["x"]).process_case(
        kinds=("nonideal-iso", "nonideal-noniso"), max_steps=6, modes=("temperature", "pressure", "temperature")), check_nonideal,
         {"quick": 160, "thorough": 4000}, floor={"quick": 15, "thorough": 400}, shrink={"quick": False, "thorough": True}),
]
