"""C15 - mole-/mass-fraction conversion is a consistent bijection."""
import math
import sys

from hypothesis import strategies as st

from .. import build, gen
from ..core import Part, Violation, call, is_raised, require
from ..refmodels import to_molar, to_weight

ID = "C15"
RULE = ("cases: fraction p in [0,1] (uniform, exact 0/1, subnormals, 1-2^-53, within 1e-12 of either end), "
        "second fraction q, molar masses M1,M2>0 (built-in components or random with ratio up to 1e3); "
        "rejection part: values outside [0,1] (negative incl. -5e-324, >1 incl. nextafter(1), +-inf, NaN). "
        "non-trivial = M1/M2 outside [0.99,1.01] and 0<p<1 (conversion is not the identity) resp. any outside value; "
        "distinct = SHA-1 of the canonical case JSON")
ASSUMPTIONS = ["IEEE-754 double arithmetic; tolerances: round trip 32 eps x max(M1/M2,M2/M1) absolute and, for p<=1/2, relative"]
EPS = sys.float_info.epsilon


def _p():
    return st.one_of(
        st.floats(0.0, 1.0),
        st.floats(0.0, 1.0),
        st.sampled_from([0.0, 1.0, 5e-324, 2.2250738585072014e-308, 1.0 - 2.0**-53, 0.5, 2.0**-53]),
        gen.loguniform(1e-300, 1e-12),
        gen.loguniform(1e-16, 1e-12).map(lambda e: 1.0 - e),
        gen.loguniform(1e-12, 1e-3),
        gen.loguniform(1e-12, 1e-3).map(lambda e: 1.0 - e),
    )


def _masses():
    builtin = st.sampled_from(gen.BUILTIN_COMPONENTS)
    return st.one_of(
        st.tuples(builtin, builtin).map(lambda t: {"c1": {"builtin": t[0]}, "c2": {"builtin": t[1]}}),
        st.tuples(gen.loguniform(1.0, 1000.0), gen.loguniform(1.0, 1000.0)).map(
            lambda t: {"m1": t[0], "m2": t[1]}),
        st.tuples(gen.loguniform(10.0, 500.0), gen.loguniform(1e-3, 1e3)).map(
            lambda t: {"m1": t[0], "m2": t[0] * t[1]}),
        st.tuples(st.integers(1, 300), st.integers(1, 300)).map(lambda t: {"m1": t[0], "m2": t[1]}),  # Python ints (18, 46)
    )


def strategy(tier):
    return st.fixed_dictionaries({"p": _p(), "q": _p(), "masses": _masses()})


def _mixture(masses):
    if "c1" in masses:
        c1, c2 = masses["c1"], masses["c2"]
    else:
        base = {"vp": {"type": "antoine", "a": 7.0, "b": -1700.0, "c": -40.0}, "cp": [75.0, 0.0, 0.0, 0.0], "uq": None}
        c1 = dict(base, name="S1", mw=masses["m1"])
        c2 = dict(base, name="S2", mw=masses["m2"])
    return build.mixture({"name": "SYN", "c1": c1, "c2": c2,
                          "nrtl": {"g12": 0.0, "g21": 0.0, "alpha12": 0.3, "alpha21": None, "a12": 0.0, "a21": 0.0},
                          "uq": None})


def check(case):
    p, q = case["p"], case["q"]
    mix = _mixture(case["masses"])
    m1, m2 = mix.first_component.molecular_weight, mix.second_component.molecular_weight
    ratio = max(m1 / m2, m2 / m1, 1.0)
    tol = 32 * EPS * ratio
    classes = []
    for frm, to, fwd, back, ref in (("weight", "molar", "to_molar", "to_weight", to_molar),
                                    ("molar", "weight", "to_weight", "to_molar", to_weight)):
        c = call(build.composition, p, frm)
        require(not is_raised(c), "Composition(p=%r) in [0,1] was rejected: %r", p, c)
        # the same object is first converted for a mixture with other molar masses: results must not stick to the object
        call(getattr(c, fwd), _mixture({"m1": 3.0 * m2, "m2": 0.5 * m1}))
        conv = call(getattr(c, fwd), mix)
        require(not is_raised(conv), "%s of p=%r raised %r", fwd, p, conv)
        require(conv.type == to, "%s returned type %r", fwd, conv.type)
        require(0.0 <= conv.p <= 1.0, "%s(%r) = %r outside [0,1]", fwd, p, conv.p)
        # agreement with the reference conversion
        r = ref(p, m1, m2)
        require(abs(conv.p - r) <= 8 * EPS * max(abs(r), 0.0) + 1e-300,
                "%s(%r; M=%r,%r) = %r but the conversion law gives %r", fwd, p, m1, m2, conv.p, r)
        # identity on own basis
        same = getattr(c, back)(mix)
        require(same.p == p and same.type == frm, "%s on a %s composition changed it: %r", back, frm, same)
        # round trip
        rt = call(getattr(conv, back), mix)
        require(not is_raised(rt), "%s of %r raised %r", back, conv, rt)
        require(rt.type == frm, "round trip returned type %r", rt.type)
        err = abs(rt.p - p)
        require(err <= tol, "round trip %s->%s->%s of p=%r (M=%r,%r) returned %r (|err| %.3g > %.3g)",
                frm, to, frm, p, m1, m2, rt.p, err, tol)
        if p <= 0.5:
            require(err <= tol * p + 1e-300, "round trip of small p=%r lost relative accuracy: %r", p, rt.p)
        # end points exactly
        if p == 0.0 or p == 1.0:
            require(conv.p == p, "%s does not fix the end point %r: %r", fwd, p, conv.p)
        # the same number in another numeric type is the same composition
        import numpy

        forms = [("numpy.float64", numpy.float64(p))]
        if p in (0.0, 1.0):
            forms += [("int", int(p)), ("numpy.int64", numpy.int64(int(p)))]
        for label, v in forms:
            c2 = call(build.composition, v, frm)
            require(not is_raised(c2), "Composition(p=%r as %s) was rejected: %r", p, label, c2)
            conv2 = call(getattr(c2, fwd), mix)
            require(not is_raised(conv2) and float(conv2.p) == conv.p and conv2.type == to,
                    "%s of p=%r given as %s is %r, given as float %r", fwd, p, label, conv2, conv)
        # first + second = 1
        require(abs(conv.first + conv.second - 1.0) <= EPS, "first+second = %r", conv.first + conv.second)
        require(conv.first == conv.p, "first != p")
        # strict monotonicity when the gap is resolvable
        lo, hi = (p, q) if p < q else (q, p)
        if (hi - lo) / ratio > 64 * EPS:
            clo = getattr(build.composition(lo, frm), fwd)(mix).p
            chi = getattr(build.composition(hi, frm), fwd)(mix).p
            require(clo < chi, "%s not increasing: f(%r)=%r, f(%r)=%r", fwd, lo, clo, hi, chi)
            classes.append("monotone-checked")
    # ratio law  x1 w2 M1 = x2 w1 M2  (cancellation-free), from the mass fraction p
    w = build.composition(p, "weight")
    x = w.to_molar(mix)
    lhs = x.first * w.second * m1
    rhs = x.second * w.first * m2
    slack = 1e-13 * max(abs(lhs), abs(rhs)) + 4 * EPS * (w.first * m2 + x.first * m1) + 1e-300
    require(abs(lhs - rhs) <= slack, "ratio law violated at w=%r (M=%r,%r): %r vs %r", p, m1, m2, lhs, rhs)
    if p in (0.0, 1.0):
        classes.append("endpoint")
    elif p < 1e-9 or p > 1 - 1e-9:
        classes.append("near-end")
    else:
        classes.append("interior")
    classes.append("builtin-masses" if "c1" in case["masses"] else "random-masses")
    nontrivial = 0.0 < p < 1.0 and not (0.99 <= m1 / m2 <= 1.01)
    return {"nontrivial": nontrivial, "classes": classes}


# ---------------------------------------------------------------------------------- rejection
def bad_strategy(tier):
    bad = st.one_of(
        st.sampled_from([-5e-324, math.nextafter(1.0, 2.0), math.inf, -math.inf, math.nan, -0.5, 1.5, -1e-300, 2.0]),
        st.floats(max_value=-5e-324, allow_nan=False),
        st.floats(min_value=math.nextafter(1.0, 2.0), allow_nan=False),
        gen.loguniform(1e-16, 1e-3).map(lambda e: -e),
        gen.loguniform(1e-15, 1e-3).map(lambda e: 1.0 + e),
    )
    return st.fixed_dictionaries({"bad": bad, "basis": gen.basis})


def check_bad(case):
    v = case["bad"]
    if 0.0 <= v <= 1.0:  # e.g. 1+1e-17 rounds to 1.0: inside the domain, not a rejection case
        return {"nontrivial": False, "classes": ["rounded-inside"]}
    c = call(build.composition, v, case["basis"])
    if not is_raised(c):
        raise Violation("Composition(p=%r, type=%s) outside [0,1] was accepted: %r" % (v, case["basis"], c))
    require(c.type == "ValueError", "Composition(p=%r) raised %s instead of ValueError", v, c.type)
    return {"nontrivial": True, "classes": ["nan" if v != v else ("negative" if v < 0 else "above-one")]}


PARTS = [
    Part("bijection", strategy, check, {"quick": 30000, "thorough": 500000}, floor={"quick": 5000, "thorough": 50000}),
    Part("rejection", bad_strategy, check_bad, {"quick": 4000, "thorough": 50000}, floor={"quick": 500, "thorough": 5000}),
]
