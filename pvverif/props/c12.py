"""C12 - membrane permeance follows the Arrhenius law of its experiments."""
import math

from hypothesis import strategies as st

from .. import build, gen
from ..core import Discard, Part, call, is_raised, relerr, require
from ..refmodels import R, convert_units

ID = "C12"
RULE = ("cases: two components (built-in or synthetic) each with 1..6 experiments at distinct temperatures 273..400 K (gap >= 0.5 K) in "
        "random order, all in kg/(m2 h kPa) or all in SI or GPU, activation energies -60..120 kJ/mol stated for all / none / some, "
        "random or exactly-Arrhenius permeances; query temperature 260..420 K (an experiment temperature in 20% of cases), kept >= 1e-6 K "
        "from a tie between the two nearest experiments; permeate temperature / pressure / none for the pure-component flux. "
        "Also: the same experiments written to ideal_experiments.csv (blank cells for unstated values) and loaded with Membrane.load (built-in "
        "components), whole-kelvin temperatures as int / numpy.int64, the same question asked twice. "
        "non-trivial = query temperature differs from every experiment temperature and |Ea used| > 1 kJ/mol; distinct = SHA-1 of the case JSON")
ASSUMPTIONS = ["reference: nearest experiment, stated Ea or least-squares slope of ln P vs 1/T (centred two-pass formula), tolerances "
               "1e-9 relative plus the propagated uncertainty of the regression"]


@st.composite
def strategy(draw, tier="quick"):
    units = draw(st.sampled_from([("kg/(m2*h*kPa)",), ("kg/(m2*h*kPa)",), ("SI",), ("GPU",)]))
    c1 = draw(gen.component("S1"))
    c2 = draw(gen.component("S2"))
    if c1.get("builtin") is not None and c1 == c2:
        c2 = {"builtin": "MeOH" if c1["builtin"] != "MeOH" else "H2O"}
    e1 = draw(gen.experiments(6, units))
    e2 = draw(gen.experiments(6, units))
    temps = [e["T"] for e in e1["exps"]]
    if draw(st.integers(0, 4)) == 0:
        t = draw(st.sampled_from(temps))
    else:
        t = draw(gen.uniform(260.0, 420.0))
    mode = draw(st.sampled_from(["vacuum", "temperature", "pressure"]))
    perm = {"mode": mode, "T": draw(gen.uniform(120.0, 300.0)) if mode == "temperature" else None,
            "p": draw(st.one_of(st.just(0.0), gen.loguniform(1e-3, 100.0))) if mode == "pressure" else None}
    return {"c1": c1, "c2": c2, "e1": e1, "e2": e2, "T": t, "perm": perm, "interleave": draw(st.booleans())}


def _ref_ea(exps):
    """Least-squares slope of ln(value) against 1/T, times -R; plus an a-priori uncertainty."""
    xs = [1.0 / e["T"] for e in exps]
    ys = [math.log(e["value"]) for e in exps]
    n = len(xs)
    mx, my = math.fsum(xs) / n, math.fsum(ys) / n
    sxx = math.fsum((x - mx) ** 2 for x in xs)
    sxy = math.fsum((x - mx) * (y - my) for x, y in zip(xs, ys))
    slope = sxy / sxx
    spread = max(xs) - min(xs)
    unc = 1e-9 * R * (max(abs(y) for y in ys) + 1.0) / spread
    return -slope * R, unc


def _ref_permeance(exps, t, mw):
    """(value in kg/(m2 h kPa), Ea used or None, relative tolerance, tie)"""
    d = [abs(e["T"] - t) for e in exps]
    i = min(range(len(exps)), key=lambda k: d[k])
    ds = sorted(d)
    tie = len(ds) > 1 and ds[1] - ds[0] < 1e-6
    e = exps[i]
    base = convert_units(e["value"], e["units"], "kg/(m2*h*kPa)", mw)
    if e["T"] == t:
        return base, None, 1e-12, tie
    if e["Ea"] is not None:
        ea, unc = e["Ea"], 0.0
    else:
        ea, unc = _ref_ea(exps)
    dinv = 1.0 / t - 1.0 / e["T"]
    val = base * math.exp(-ea / R * dinv)
    return val, ea, 1e-9 + (unc + 1e-7 * abs(ea)) / R * abs(dinv) * (0 if e["Ea"] is not None else 1), tie


def _loaded_twin(case, mem, comps, t):
    import os
    import shutil
    import tempfile

    d = tempfile.mkdtemp(prefix="pvverif-c12-")
    try:
        mdir = os.path.join(d, "MEMBRANE")
        os.makedirs(mdir)
        names = {id(comps[0]): case["c1"]["builtin"], id(comps[1]): case["c2"]["builtin"]}
        with open(os.path.join(mdir, "ideal_experiments.csv"), "w") as fh:
            fh.write("name,temperature,component,activation_energy,permeance,units,comment\n")
            for k, e in enumerate(mem.ideal_experiments.experiments):  # the optional comment is left blank in every second row
                fh.write("%s,%r,%s,%s,%r,%s,%s\n" % (e.name, float(e.temperature), names[id(e.component)],
                                                    "" if e.activation_energy is None else repr(float(e.activation_energy)),
                                                    float(e.permeance.value), e.permeance.units, "c" if k % 2 else ""))
        loaded = call(build.Membrane.load, mdir)
        require(not is_raised(loaded), "Membrane.load of a membrane directory with ideal_experiments.csv raised %r", loaded)
        require(len(loaded.ideal_experiments.experiments) == len(mem.ideal_experiments.experiments), "%d experiments tabulated, %d loaded",
                len(mem.ideal_experiments.experiments), len(loaded.ideal_experiments.experiments))
        for comp in comps:
            # an experiment temperature is queried as the loaded membrane holds it (text parsing may move it by one rounding)
            tq = t
            for a, b in zip(mem.ideal_experiments.experiments, loaded.ideal_experiments.experiments):
                if a.component is comp and a.temperature == t:
                    tq = b.temperature
            want, got = call(mem.get_permeance, t, comp), call(loaded.get_permeance, tq, comp)
            require(is_raised(want) == is_raised(got), "permeance of %s at %r K: membrane built from objects gives %r, the same experiments "
                    "loaded from ideal_experiments.csv give %r", comp.name, t, want, got)
            if not is_raised(want):
                require(got.units == want.units and relerr(got.value, want.value) <= 1e-9,
                        "permeance of %s at %r K: membrane built from objects gives %r, the same experiments loaded from "
                        "ideal_experiments.csv (blank activation energy = none stated) give %r", comp.name, t, want, got)
            ea_w, ea_g = call(mem.calculate_activation_energy, comp), call(loaded.calculate_activation_energy, comp)
            require(is_raised(ea_w) == is_raised(ea_g), "activation energy of %s: %r from objects, %r from the loaded table", comp.name, ea_w, ea_g)
            if not is_raised(ea_w):
                require(abs(float(ea_w) - float(ea_g)) <= 1e-7 * abs(float(ea_w)) + 1e-3, "activation energy of %s: %r from objects, %r from "
                        "the loaded table", comp.name, float(ea_w), float(ea_g))
    finally:
        shutil.rmtree(d, ignore_errors=True)


def check(case):
    try:
        return _check(case)
    except OverflowError:
        raise Discard("reference Arrhenius extrapolation overflows")


def _check(case):
    c1, c2 = build.component(case["c1"]), build.component(case["c2"])
    spec = {"name": "M", "e1": case["e1"]["exps"], "e2": case["e2"]["exps"], "interleave": case.get("interleave", False)}

    class _Mix:  # build.membrane only needs the two components
        first_component, second_component = c1, c2

    mem = build.membrane(spec, _Mix)
    t = case["T"]
    classes = [case["e1"]["exps"][0]["units"]]
    vals = []
    nontrivial = False
    for comp, ekey in ((c1, "e1"), (c2, "e2")):
        exps = case[ekey]["exps"]
        ref, ea, tol, tie = _ref_permeance(exps, t, comp.molecular_weight)
        if tie:
            return {"nontrivial": False, "classes": ["tie-skipped"]}
        got = call(mem.get_permeance, t, comp)
        require(not is_raised(got), "get_permeance(%r) raised %r", t, got)
        require(got.units == build.KG, "get_permeance returned units %r", got.units)
        require(relerr(got.value, ref) <= tol,
                "permeance of %s at %r K = %r, Arrhenius law of the nearest experiment gives %r (Ea %r, experiments %r)",
                comp.name, t, float(got.value), ref, ea, exps)
        vals.append(float(got.value))
        # the same whole-kelvin temperature stated as float, Python int and numpy integer; then the first question again (one
        # Membrane object answers any number of questions in any order)
        import numpy

        ti = int(round(t))
        typed = [call(mem.get_permeance, form, comp) for form in (float(ti), ti, numpy.int64(ti))]
        if not is_raised(typed[0]):
            for label, other in (("int", typed[1]), ("numpy.int64", typed[2])):
                require(not is_raised(other) and relerr(other.value, typed[0].value) <= 1e-12 and other.units == typed[0].units,
                        "permeance of %s at %r K given as %s = %r, given as float %r", comp.name, ti, label, other, typed[0])
        again = call(mem.get_permeance, t, comp)
        require(not is_raised(again) and again.value == got.value and again.units == got.units,
                "get_permeance(%r) asked a second time on the same membrane gives %r, the first time %r", t, again, got)
        stated = [e["Ea"] for e in exps]
        if len(exps) >= 2:
            # regression (used when none is stated)
            ea_impl = call(mem.calculate_activation_energy, comp)
            require(not is_raised(ea_impl), "calculate_activation_energy raised %r", ea_impl)
            ea_ref, unc = _ref_ea(exps)
            require(abs(float(ea_impl) - ea_ref) <= 1e-7 * abs(ea_ref) + unc,
                    "regressed activation energy %r J/mol, least squares of ln P vs 1/T gives %r", float(ea_impl), ea_ref)
            if case[ekey]["exact"]:
                true = case[ekey]["Ea_true"]
                require(abs(float(ea_impl) - true) <= 1e-6 * abs(true) + 1e3 * unc,
                        "experiments on an exact Arrhenius line with Ea=%r: regression returned %r", true, float(ea_impl))
        if case[ekey]["exact"] and (len(exps) >= 2 or stated[0] is not None):
            # the permeance does not depend on which experiment is nearest
            e0 = exps[0]
            line = convert_units(e0["value"], e0["units"], build.KG, comp.molecular_weight) * math.exp(
                -case[ekey]["Ea_true"] / R * (1.0 / t - 1.0 / e0["T"]))
            spread = max(1.0 / e["T"] for e in exps) - min(1.0 / e["T"] for e in exps) if len(exps) > 1 else 1.0
            slack = 1e-6 + 1e-9 * 30.0 / max(spread, 1e-9) * abs(1.0 / t - 1.0 / e0["T"])
            require(relerr(got.value, line) <= slack,
                    "exact Arrhenius family: permeance at %r K = %r but the line through the experiments gives %r", t, float(got.value), line)
            classes.append("exact-arrhenius")
        if ea is not None and abs(ea) > 1000.0:
            nontrivial = True
        classes.append("at-experiment" if ea is None else ("stated-Ea" if any(e["T"] != t and e["Ea"] is not None for e in exps) and ea in stated else "regressed-Ea"))

    # the same experiments tabulated (ideal_experiments.csv of a membrane directory, blank cell = no stated activation energy)
    # and loaded with Membrane.load: the same membrane
    if "builtin" in case["c1"] and "builtin" in case["c2"]:
        _loaded_twin(case, mem, (c1, c2), t)
        classes.append("loaded-twin")

    # selectivities
    sw = call(mem.get_ideal_selectivity, t, c1, c2, "weight")
    sm = call(mem.get_ideal_selectivity, t, c1, c2, "molar")
    require(not is_raised(sw) and not is_raised(sm), "get_ideal_selectivity raised %r / %r", sw, sm)
    if vals[1] > 0 and math.isfinite(vals[0] / vals[1]):
        require(relerr(sw, vals[0] / vals[1]) <= 1e-12, "mass-based selectivity %r != P1/P2 = %r", float(sw), vals[0] / vals[1])
        require(relerr(sm, float(sw) * c2.molecular_weight / c1.molecular_weight) <= 1e-12,
                "molar selectivity %r != mass-based %r x M2/M1 (%r/%r)", float(sm), float(sw), c2.molecular_weight, c1.molecular_weight)
    # pure-component flux
    perm = case["perm"]
    flux = call(mem.get_estimated_pure_component_flux, t, c1, perm["T"], perm["p"])
    require(not is_raised(flux), "get_estimated_pure_component_flux raised %r", flux)
    ps = float(c1.get_vapor_pressure(t))
    back = 0.0 if perm["mode"] == "vacuum" else (float(c1.get_vapor_pressure(perm["T"])) if perm["mode"] == "temperature" else perm["p"])
    expect = vals[0] * (ps - back)
    require(abs(float(flux) - expect) <= 1e-12 * vals[0] * max(ps, back), "pure-component flux %r != permeance x (Psat - permeate pressure) = %r",
            float(flux), expect)
    classes.append("flux-" + perm["mode"])
    return {"nontrivial": nontrivial, "classes": classes}


PARTS = [
    Part("arrhenius", lambda tier: strategy(tier), check, {"quick": 12000, "thorough": 300000}, floor={"quick": 2000, "thorough": 30000}),
]
