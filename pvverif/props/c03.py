"""C03 - heat balance: evaporation heat, self-cooling and temperature programme are exact."""
import math

from .. import procs
from ..core import Discard, Part, is_raised, relerr, require
from ..observe import EvaluationCap, Trace

ID = "C03"
RULE = ("cases: as C01 (4 process kinds x models x mixtures x permeate modes x conditions x self-cooling / polynomial, exponential, "
        "logarithmic programme); every case runs its own kind AND the iso/non-iso sibling from the same conditions for the step-0 differential. "
        "non-trivial = model returned, both components contribute > 1e-6 of the evaporation heat, M1 != M2, and >= 2 steps; "
        "distinct = SHA-1 of the case JSON")
ASSUMPTIONS = ["latent heat per kg = 1000 x Component.get_vaporisation_heat(T)/M (the component's own public method, checked by C13)",
               "specific heat per unit mass = Component.get_specific_heat(T)/M weighted by mass fraction",
               "identities recomputed from the reported series; tolerance 1e-12 (1e-10 for programme temperatures)"]
TOL = 1e-12


def _latent(comp, t):
    return float(comp.get_vaporisation_heat(t)) / comp.molecular_weight * 1000.0


def check_heat(case, s, dt, model, kind):
    n = case["steps"]
    c1, c2 = s.mix.first_component, s.mix.second_component
    area = case["area"]
    tp = case["perm"]["T"]
    both = True
    prog = procs.program_for(case, dt) if kind.endswith("noniso") else None
    for k in range(n):
        t = float(model.feed_temperature[k])
        j1, j2 = float(model.partial_fluxes[k][0]), float(model.partial_fluxes[k][1])
        d1, d2 = j1 * area * dt, j2 * area * dt
        q1, q2 = d1 * _latent(c1, t), d2 * _latent(c2, t)
        q = float(model.feed_evaporation_heat[k])
        if not all(math.isfinite(v) for v in (t, j1, j2, q, q1, q2, float(model.feed_mass[k]))):
            return False  # non-finite reported state: admissibility is C18's subject, nothing further is decidable here
        require(abs(q - (q1 + q2)) <= TOL * (abs(q1) + abs(q2)) + 1e-300,
                "step %d (%s): evaporation heat %r but sum of permeated mass x own latent heat at %r K = %r (= %r + %r)", k, kind, q, t, q1 + q2, q1, q2)
        if not (abs(q1) > 1e-6 * abs(q) and abs(q2) > 1e-6 * abs(q)):
            both = False
        ch = model.permeate_condensation_heat[k]
        if tp is None:
            require(ch is None, "step %d: condensation heat %r reported without a permeate temperature", k, ch)
        else:
            require(ch is not None and math.isfinite(float(ch)), "step %d: condensation heat %r with permeate temperature %r", k, ch, tp)
        # temperature
        if kind.endswith("-iso"):
            require(t == case["T"], "isothermal model changed the feed temperature at step %d: %r", k, t)
        elif k + 1 < n:
            tn = float(model.feed_temperature[k + 1])
            if prog is not None:
                expect = procs.eval_program(prog, (k + 1) * dt)
                require(relerr(tn, expect) <= 1e-10, "step %d: programme temperature %r, programme at t=%r gives %r", k + 1, tn, (k + 1) * dt, expect)
            else:
                m = float(model.feed_mass[k])
                w = model.feed_compositions[k]
                cp = (w.first * float(c1.get_specific_heat(t)) / c1.molecular_weight
                      + w.second * float(c2.get_specific_heat(t)) / c2.molecular_weight)
                expect = t - q / (cp * m)
                require(abs(tn - expect) <= TOL * max(abs(t), abs(q / (cp * m))),
                        "step %d: self-cooling temperature %r, expected T - Q/(m cp) = %r - %r/(%r x %r) = %r", k + 1, tn, t, q, m, cp, expect)
    return both


def check(case):
    s = procs.setup(case)
    classes = procs.classes_of(case)
    kind = case["kind"]
    sibling = kind.replace("-iso", "-X").replace("-noniso", "-iso").replace("-X", "-noniso")
    try:
        with Trace(s.pv, cap=60000, keep=False):
            dt = procs.step_length(case, s)
            model = procs.run(case, s, dt)
            sib = procs.run(case, s, dt, kind=sibling)
    except EvaluationCap:
        raise Discard("evaluation cap reached (termination is C10's subject)")
    if is_raised(model):
        raise Discard("model raised %s" % model.type)
    both = check_heat(case, s, dt, model, kind)
    if not is_raised(sib):
        check_heat(case, s, dt, sib, sibling)
        # isothermal vs non-isothermal from the same conditions: identical step 0
        a, b = (model, sib) if kind.endswith("-iso") else (sib, model)
        for i in (0, 1):
            require(relerr(a.partial_fluxes[0][i], b.partial_fluxes[0][i]) <= TOL, "step-0 flux %d differs: isothermal %r, non-isothermal %r",
                    i + 1, float(a.partial_fluxes[0][i]), float(b.partial_fluxes[0][i]))
        require(relerr(a.feed_evaporation_heat[0], b.feed_evaporation_heat[0]) <= TOL,
                "step-0 evaporation heat differs: isothermal %r, non-isothermal %r", float(a.feed_evaporation_heat[0]), float(b.feed_evaporation_heat[0]))
        ca, cb = a.permeate_condensation_heat[0], b.permeate_condensation_heat[0]
        require((ca is None) == (cb is None), "step-0 condensation heat present in one model only: %r vs %r", ca, cb)
        if ca is not None:
            require(relerr(ca, cb) <= 1e-11, "step-0 condensation heat differs: isothermal %r, non-isothermal %r", float(ca), float(cb))
        classes.append("sibling-compared")
    nontrivial = both and case["steps"] >= 2 and abs(s.m1 - s.m2) > 1e-9 * s.m1
    return {"nontrivial": nontrivial, "classes": classes}


PARTS = [
    Part("ideal", lambda tier: procs.process_case(kinds=("ideal-iso", "ideal-noniso")), check, {"quick": 3000, "thorough": 100000},
         floor={"quick": 250, "thorough": 8000}),
    Part("non-ideal", lambda tier: procs.process_case(kinds=("nonideal-iso", "nonideal-noniso"), max_steps=6), check,
         {"quick": 240, "thorough": 6000}, floor={"quick": 25, "thorough": 500}, shrink={"quick": False, "thorough": True}),
]
