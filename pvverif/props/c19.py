"""C19 - contradictory or incomplete specifications are rejected at every entry point."""
import attr
from hypothesis import strategies as st

from .. import build, gen, procs
from ..core import Discard, Part, Violation, call, is_raised, require
from ..observe import EvaluationCap, Trace

ID = "C19"
RULE = ("the matrix (invalid-specification class x entry point that reaches it) is ENUMERATED (cells listed in the evidence); the remaining "
        "arguments of each cell are generated, otherwise valid (mixture, feed state, both permeate values, membrane, conditions, curve set). "
        "Oracle (differential): the valid variant(s) of the call return, the invalid variant raises an exception with a frame in the package. "
        "Cells include tabulated curves (blank later rows), membrane folders holding a contradictory / empty curve table, loaded membranes, "
        "the single-curve non-isothermal model started at the curve temperature; same-named complete / incomplete mixtures. "
        "non-trivial = all valid variants returned and the invalid variant was exercised; distinct = SHA-1 of the case JSON")
ASSUMPTIONS = ["any exception type raised from package code counts as a rejection", "cases whose valid variant raises are discards"]

BOTH_ENTRY = ["driving-force", "solver", "permeate-composition", "separation-factor", "ideal-curve", "nonideal-curve",
              "ideal-iso", "ideal-noniso", "nonideal-iso", "nonideal-noniso", "pure-flux", "curve-from-fluxes", "curve-from-table", "membrane-directory"]
MODEL_ENTRY = ["activity-coefficients", "partial-pressures", "driving-force", "solver", "permeate-composition", "separation-factor",
               "ideal-curve", "ideal-iso", "ideal-noniso"]
CELLS = ([("both-permeate", e) for e in BOTH_ENTRY]
         + [("mixture-without-parameters", "constructor")]
         + [("nrtl-without-parameters", e) for e in MODEL_ENTRY]
         + [("uniquac-without-parameters", e) for e in MODEL_ENTRY]
         + [("uniquac-without-constants-1", e) for e in MODEL_ENTRY]
         + [("uniquac-without-constants-2", e) for e in MODEL_ENTRY]
         + [("curve-without-data", "constructor"), ("curve-without-data", "membrane-directory")]
         + [("single-experiment-without-Ea", "activation-energy"), ("single-experiment-without-Ea", "permeance-elsewhere"),
            ("single-experiment-without-Ea", "loaded-permeance-elsewhere"), ("single-experiment-without-Ea", "nonideal-noniso-single-curve"),
            ("no-experiment-Ea-none", "solver")])


@st.composite
def strategy(draw, cells):
    cls, entry = draw(st.sampled_from(cells))
    heavy = entry.startswith("nonideal")
    c = draw(procs.process_case(kinds=("nonideal-iso",) if heavy else ("ideal-iso",), models=("NRTL", "UNIQUAC") if cls == "both-permeate" else ("NRTL",),
                                removal=(1e-4, 0.05), max_steps=3, modes=("temperature",), t_low=200.0))
    c["cell"] = [cls, entry]
    if entry == "loaded-permeance-elsewhere":  # membrane tables name their components: built-in mixture
        c["mixture"] = {"builtin": draw(st.sampled_from(gen.BUILTIN_MIXTURES))}
    # permeate values far from equilibrium so that the VALID single-condition variants return (construction, not rejection)
    c["perm"] = {"mode": "temperature", "T": draw(gen.uniform(200.0, c["T"] - 40.0)), "p": None}
    c["pp_both"] = draw(st.one_of(st.just(0.0), gen.loguniform(1e-4, 1e-2), gen.loguniform(1e-4, 1e-2)))  # 0 kPa IS a stated pressure
    c["zero_permeances"] = draw(st.integers(0, 3)) == 0
    c["numtype"] = draw(st.sampled_from(["float", "float", "numpy.float64", "numpy.float32", "int"]))  # type of the two permeate values
    c["reuse"] = draw(st.booleans())  # process entries: the SAME Conditions object, made contradictory after a valid run
    c["same_T"] = draw(st.booleans())
    c["table_mixture"] = draw(st.sampled_from(gen.BUILTIN_MIXTURES))
    c["table_blank"] = draw(st.sampled_from(["none", "pressure", "temperature"]))
    c["lone"] = draw(st.integers(1, 2))  # which component has the single experiment without Ea (listed first or after the other)
    c["x"] = draw(gen.uniform(0.15, 0.85))
    if cls not in ("both-permeate",) and draw(st.integers(0, 3)) == 0:
        c["x"] = draw(st.sampled_from([0.0, 1.0]))  # pure compositions are valid arguments too
    c["t_offset"] = draw(st.sampled_from([11.0, 11.0, 1e-3, 1e-6]))  # "another temperature" may be very close to the experiment's
    c["other_model_params"] = draw(gen.uniquac_params())
    c["uq_consts"] = [draw(gen.synthetic_component("S1"))["uq"], draw(gen.synthetic_component("S2"))["uq"]]
    return c


def _num(v, numtype):
    if v is None or numtype == "float":
        return v
    import numpy

    if numtype == "numpy.float64":
        return numpy.float64(v)
    if numtype == "numpy.float32":
        return numpy.float32(v)
    return int(round(v)) if v >= 1 else v


def _proc(case, s, kind, tp, pp, mdl, pv=None, dt=None, cond=None):
    if dt is None:
        dt = case.get("_dt") or 1e-6
    cond = cond or build.conditions({"area": case["area"], "T": case["T"], "amount": case["amount"], "x": s.x, "basis": s.basis, "Tp": tp, "pp": pp})
    pv = pv or s.pv
    if kind == "ideal-iso":
        return call(pv.ideal_isothermal_process, case["steps"], dt, cond, case["precision"], mdl)
    if kind == "ideal-noniso":
        return call(pv.ideal_non_isothermal_process, cond, case["steps"], dt, case["precision"], mdl)
    o = case["orders"]
    fn = pv.non_ideal_isothermal_process if kind == "nonideal-iso" else pv.non_ideal_non_isothermal_process
    return call(fn, conditions=cond, diffusion_curve_set=s.curves, number_of_steps=case["steps"], delta_hours=dt, precision=case["precision"],
                calculation_type=mdl, n_first=o["n1"], m_first=o["m1"], n_second=o["n2"], m_second=o["m2"])


def _entry(case, s, entry, tp, pp, mdl, mix=None, pv=None):
    """Calls one entry point with the given permeate values / model (on an alternative mixture when given)."""
    from pyvaporation.mixtures import get_partial_pressures
    from pyvaporation.mixtures.mixture import calculate_activity_coefficients

    mix = mix or s.mix
    pv = pv or s.pv
    comp = build.composition(s.x, s.basis)
    t, prec = case["T"], case["precision"]
    if entry == "activity-coefficients":
        return call(calculate_activity_coefficients, t, mix, comp, mdl)
    if entry == "partial-pressures":
        return call(get_partial_pressures, t, mix, comp, mdl)
    if entry == "driving-force":
        helper = getattr(pv, "get_partial_fluxes_from_permeate_composition", None)
        if helper is None:
            raise Discard("unobservable: the driving-force helper does not exist under its public name in this tree")
        return call(helper, first_component_permeance=build.permeance(0.01), second_component_permeance=build.permeance(0.02),
                    permeate_composition=build.composition(0.5, "weight"), feed_composition=comp, feed_temperature=t,
                    permeate_temperature=tp, permeate_pressure=pp, calculation_type=mdl)
    if entry == "solver":
        extra = {}
        if case.get("zero_permeances"):  # an impermeable membrane stated explicitly
            extra = dict(first_component_permeance=build.permeance(0.0), second_component_permeance=build.permeance(0.0))
        return call(pv.calculate_partial_fluxes, feed_temperature=t, composition=comp, precision=prec, permeate_temperature=tp, permeate_pressure=pp,
                    calculation_type=mdl, **extra)
    if entry == "permeate-composition":
        return call(pv.calculate_permeate_composition, t, comp, prec, tp, pp, mdl)
    if entry == "separation-factor":
        return call(pv.calculate_separation_factor, t, comp, tp, pp, prec, mdl)
    if entry == "ideal-curve":
        return call(pv.ideal_diffusion_curve, t, [comp], tp, pp, prec, mdl)
    if entry == "nonideal-curve":
        o = case["orders"]
        return call(pv.non_ideal_diffusion_curve, diffusion_curve_set=s.curves, feed_temperature=t, initial_feed_composition=comp,
                    delta_composition=(0.9 - s.w0) / 10 if s.w0 < 0.5 else -(s.w0 - 0.1) / 10, number_of_steps=2, permeate_temperature=tp,
                    permeate_pressure=pp, precision=prec, calculation_type=mdl, n_first=o["n1"], n_second=o["n2"], m_first=o["m1"], m_second=o["m2"])
    if entry in procs.KINDS:
        return _proc(case, s, entry, tp, pp, mdl, pv=pv)
    if entry == "pure-flux":
        return call(s.mem.get_estimated_pure_component_flux, t, mix.first_component, tp, pp)
    if entry == "curve-from-fluxes":
        return call(build.DiffusionCurve, mixture=mix, membrane_name="M", feed_temperature=t, feed_compositions=[comp],
                    partial_fluxes=[(0.3, 0.01)], permeate_temperature=tp, permeate_pressure=pp)
    if entry == "curve-from-table":
        # the tabulated form of the same construction (DiffusionCurve.from_frame, the CSV layout); curve-level columns are read from
        # the first row, later rows may leave them blank
        import pandas

        from pyvaporation.diffusion_curve.diffusion_curve import DC_SET_COLUMNS

        n, blank = 3, case.get("table_blank", "none")
        col = lambda v, name: [v] + [None if blank == name else v] * (n - 1)
        frame = pandas.DataFrame({
            "curve_id": ["1"] * n, "membrane_name": ["M"] * n, "mixture": [build.fresh(case.get("table_mixture", "H2O_EtOH"))] * n,
            "feed_temperature": [t] * n, "permeate_temperature": col(tp, "temperature"), "permeate_pressure": col(pp, "pressure"),
            "composition": [0.1, 0.2, 0.3], "composition_type": [build.fresh("weight")] * n,
            "partial_flux_1": [0.3, 0.4, 0.5], "partial_flux_2": [0.01, 0.01, 0.01],
            "permeance_1": [None] * n, "permeance_2": [None] * n, "units": [None] * n, "comment": [None] * n})[DC_SET_COLUMNS]
        return call(build.curve_from_frame, frame)
    if entry == "membrane-directory":
        # a membrane folder (ideal_experiments.csv + diffusion_curve_sets/*.csv) one of whose curve tables carries the specification
        return _membrane_dir(case, t, tp, pp, with_fluxes=True)
    raise AssertionError(entry)


def _membrane_dir(case, t, tp, pp, with_fluxes):
    """Membrane.load of a folder with valid experiments, one valid curve table and one table built from the given specification."""
    import os
    import shutil
    import tempfile

    name = case.get("table_mixture", "H2O_EtOH")
    n1, n2 = name.split("_")
    cell = lambda v: "" if v is None else repr(float(v))
    header = "curve_id,membrane_name,mixture,feed_temperature,permeate_temperature,permeate_pressure,composition,composition_type,partial_flux_1,partial_flux_2,permeance_1,permeance_2,units,comment\n"
    d = tempfile.mkdtemp(prefix="pvverif-c19-")
    try:
        mdir = os.path.join(d, "MEMBRANE")
        os.makedirs(os.path.join(mdir, "diffusion_curve_sets"))
        with open(os.path.join(mdir, "ideal_experiments.csv"), "w") as fh:
            fh.write("name,temperature,component,activation_energy,permeance,units,comment\n")
            fh.write("a,313.15,%s,20000.0,0.05,kg/(m2*h*kPa),c\nb,313.15,%s,30000.0,0.002,kg/(m2*h*kPa),c\n" % (n1, n2))
        with open(os.path.join(mdir, "diffusion_curve_sets", "first.csv"), "w") as fh:
            fh.write(header)
            for w in (0.1, 0.2, 0.3):
                fh.write("1,M,%s,%r,,,%r,weight,0.3,0.01,,,,c\n" % (name, float(t), w))
        with open(os.path.join(mdir, "diffusion_curve_sets", "second.csv"), "w") as fh:
            fh.write(header)
            for w in (0.15, 0.25, 0.35):
                fh.write("1,M,%s,%r,%s,%s,%r,weight,%s,,,c\n" % (name, float(t), cell(tp), cell(pp), w, "0.4,0.02" if with_fluxes else ","))
        return call(build.Membrane.load, mdir)
    finally:
        shutil.rmtree(d, ignore_errors=True)


def _load_membrane(mem, mixture_name):
    import os
    import shutil
    import tempfile

    n1, n2 = mixture_name.split("_")
    d = tempfile.mkdtemp(prefix="pvverif-c19-")
    try:
        mdir = os.path.join(d, "MEMBRANE")
        os.makedirs(mdir)
        with open(os.path.join(mdir, "ideal_experiments.csv"), "w") as fh:
            fh.write("name,temperature,component,activation_energy,permeance,units,comment\n")
            for e in mem.ideal_experiments.experiments:
                fh.write("%s,%r,%s,%s,%r,%s,c\n" % (e.name, float(e.temperature), n1 if e.name.startswith("e1") else n2,
                                                   "" if e.activation_energy is None else repr(float(e.activation_energy)),
                                                   float(e.permeance.value), e.permeance.units))
        return call(build.Membrane.load, mdir)
    finally:
        shutil.rmtree(d, ignore_errors=True)


def _rejected(out, what):
    if not is_raised(out):
        raise Violation("%s was accepted and returned %r instead of raising" % (what, out if not hasattr(out, "partial_fluxes") else type(out).__name__))
    require(out.from_package, "%s raised %r, but not from package code", what, out)


def check(case):
    cls, entry = case["cell"]
    s = procs.setup(case)
    tp, pp_both = case["perm"]["T"], case["pp_both"]
    mdl = case["model"]
    classes = ["%s@%s" % (cls, entry)]
    try:
        with Trace(s.pv, cap=60000, keep=False):
            if entry in procs.KINDS:
                vac = dict(case, perm={"mode": "vacuum", "T": None, "p": None})
                case = dict(case, _dt=procs.step_length(vac, s))
            if cls == "both-permeate":
                nt = case.get("numtype", "float")
                tp, pp_both = _num(tp, nt), _num(pp_both, nt)
                classes.append("numtype=" + nt)
                v1 = _entry(case, s, entry, tp, None, mdl)
                v2 = _entry(case, s, entry, None, pp_both, mdl)
                if is_raised(v1) or is_raised(v2):
                    raise Discard("valid variant raised")
                if entry in procs.KINDS and case.get("reuse"):
                    # one Conditions object: valid run first, then the other permeate value is set on the same object
                    cond = build.conditions({"area": case["area"], "T": case["T"], "amount": case["amount"], "x": s.x, "basis": s.basis, "Tp": tp, "pp": None})
                    first = _proc(case, s, entry, tp, None, mdl, cond=cond)
                    if is_raised(first):
                        raise Discard("valid variant raised")
                    cond.permeate_pressure = pp_both
                    bad = _proc(case, s, entry, tp, pp_both, mdl, cond=cond)
                    classes.append("conditions-object-reused")
                else:
                    bad = _entry(case, s, entry, tp, pp_both, mdl)
                _rejected(bad, "%s with both a permeate temperature (%r K) and a permeate pressure (%r kPa)" % (entry, tp, pp_both))
            elif cls == "mixture-without-parameters":
                ok = call(build.Mixture, name="X", first_component=s.mix.first_component, second_component=s.mix.second_component,
                          nrtl_params=s.mix.nrtl_params)
                if is_raised(ok):
                    raise Discard("valid variant raised")
                bad = call(build.Mixture, name="X", first_component=s.mix.first_component, second_component=s.mix.second_component)
                _rejected(bad, "a mixture without interaction parameters")
            elif cls in ("nrtl-without-parameters", "uniquac-without-parameters", "uniquac-without-constants-1", "uniquac-without-constants-2"):
                c1, c2 = s.mix.first_component, s.mix.second_component
                uq1, uq2 = case["uq_consts"]
                full1 = c1 if c1.uniquac_constants is not None else attr.evolve(c1, uniquac_constants=build.UNIQUACConstants(r=uq1["r"], q_geometric=uq1["q"]))
                full2 = c2 if c2.uniquac_constants is not None else attr.evolve(c2, uniquac_constants=build.UNIQUACConstants(r=uq2["r"], q_geometric=uq2["q"]))
                uqp = s.mix.uniquac_params or build.uniquac(case["other_model_params"])
                # the complete and the incomplete mixture carry the SAME name (two parameterisations of one system), the complete one is used first
                good = build.Mixture(name="SYS", first_component=full1, second_component=full2, nrtl_params=s.mix.nrtl_params, uniquac_params=uqp)
                if cls == "nrtl-without-parameters":
                    want, broken = "NRTL", build.Mixture(name="SYS", first_component=full1, second_component=full2, uniquac_params=uqp)
                elif cls == "uniquac-without-parameters":
                    want, broken = "UNIQUAC", build.Mixture(name="SYS", first_component=full1, second_component=full2, nrtl_params=s.mix.nrtl_params)
                else:
                    want = "UNIQUAC"
                    b1 = attr.evolve(full1, uniquac_constants=None) if cls.endswith("1") else full1
                    b2 = attr.evolve(full2, uniquac_constants=None) if cls.endswith("2") else full2
                    broken = build.Mixture(name="SYS", first_component=b1, second_component=b2, nrtl_params=s.mix.nrtl_params, uniquac_params=uqp)
                pv_good = build.Pervaporation(membrane=build.membrane(case["membrane"], good), mixture=good)
                pv_bad = build.Pervaporation(membrane=build.membrane(case["membrane"], broken), mixture=broken)
                ok = _entry(case, s, entry, None, None, want, mix=good, pv=pv_good)
                if is_raised(ok):
                    raise Discard("valid variant raised")
                bad = _entry(case, s, entry, None, None, want, mix=broken, pv=pv_bad)
                _rejected(bad, "%s with model %s on a mixture lacking what the model needs (%s)" % (entry, want, cls))
            elif cls == "curve-without-data" and entry == "membrane-directory":
                ok = _membrane_dir(case, case["T"], None, None, with_fluxes=True)
                if is_raised(ok):
                    raise Discard("valid variant raised")
                bad = _membrane_dir(case, case["T"], None, None, with_fluxes=False)
                _rejected(bad, "a membrane folder holding a curve table with neither fluxes nor permeances")
            elif cls == "curve-without-data":
                comp = build.composition(s.x, s.basis)
                ok = call(build.DiffusionCurve, mixture=s.mix, membrane_name="M", feed_temperature=case["T"], feed_compositions=[comp], partial_fluxes=[(0.3, 0.01)])
                if is_raised(ok):
                    raise Discard("valid variant raised")
                bad = call(build.DiffusionCurve, mixture=s.mix, membrane_name="M", feed_temperature=case["T"], feed_compositions=[comp])
                _rejected(bad, "a diffusion curve with neither fluxes nor permeances")
            else:
                k_lone, k_other = ("e1", "e2") if case.get("lone", 1) == 1 else ("e2", "e1")
                e = case["membrane"][k_lone][0]
                # the other component keeps its experiments, all with a stated activation energy (it must not be borrowed)
                others = [dict(x, Ea=x["Ea"] if x["Ea"] is not None else 41000.0) for x in case["membrane"][k_other]]
                lone = {"name": "M", k_lone: [dict(e, Ea=None)], k_other: others}
                stated = {"name": "M", k_lone: [dict(e, Ea=30000.0)], k_other: others}
                m_bad, m_ok = build.membrane(lone, s.mix), build.membrane(stated, s.mix)
                t_other = e["T"] + case.get("t_offset", 11.0)
                c_lone = s.mix.first_component if k_lone == "e1" else s.mix.second_component
                classes.append("lone=%s" % k_lone)
                if entry == "activation-energy":
                    ok, bad = call(m_ok.calculate_activation_energy, c_lone), call(m_bad.calculate_activation_energy, c_lone)
                elif entry == "permeance-elsewhere":
                    ok, bad = call(m_ok.get_permeance, t_other, c_lone), call(m_bad.get_permeance, t_other, c_lone)
                elif entry == "nonideal-noniso-single-curve":
                    # one diffusion curve only: the model needs the membrane's activation energy to leave the curve's temperature - also
                    # when the feed STARTS exactly at the curve's temperature
                    c0 = case["curves"]["curves"][0]
                    one = dict(case["curves"], curves=[dict(c0, T=case["T"] if case.get("same_T", True) else c0["T"])])
                    cs = procs.build_curve_set(one, s.mix)
                    o = case["orders"]

                    def _run(m):
                        cond = build.conditions({"area": 1.0, "T": case["T"], "amount": 1000.0, "x": s.x, "basis": s.basis, "Tp": None, "pp": None})
                        return call(build.Pervaporation(membrane=m, mixture=s.mix).non_ideal_non_isothermal_process, conditions=cond,
                                    diffusion_curve_set=cs, number_of_steps=2, delta_hours=1e-3, precision=case["precision"], calculation_type=mdl,
                                    n_first=o["n1"], m_first=0, n_second=o["n2"], m_second=0)

                    ok, bad = _run(m_ok), _run(m_bad)
                    classes.append("feed-at-curve-temperature" if case.get("same_T", True) else "feed-off-curve-temperature")
                elif entry == "loaded-permeance-elsewhere":
                    # the same two membranes as directories (ideal_experiments.csv, blank cell = no stated activation energy)
                    l_ok, l_bad = _load_membrane(m_ok, case["mixture"]["builtin"]), _load_membrane(m_bad, case["mixture"]["builtin"])
                    if is_raised(l_ok) or is_raised(l_bad):
                        raise Discard("membrane directory could not be loaded")
                    ok, bad = call(l_ok.get_permeance, t_other, c_lone), call(l_bad.get_permeance, t_other, c_lone)
                else:
                    comp = build.composition(s.x, s.basis)
                    pv_ok, pv_bad = build.Pervaporation(membrane=m_ok, mixture=s.mix), build.Pervaporation(membrane=m_bad, mixture=s.mix)
                    ok = call(pv_ok.calculate_partial_fluxes, feed_temperature=t_other, composition=comp, calculation_type=mdl)
                    bad = call(pv_bad.calculate_partial_fluxes, feed_temperature=t_other, composition=comp, calculation_type=mdl)
                if is_raised(ok):
                    raise Discard("valid variant raised")
                _rejected(bad, "%s with a single experiment and no stated activation energy" % entry)
    except EvaluationCap:
        raise Discard("evaluation cap reached (termination is C10's subject)")
    return {"nontrivial": True, "classes": classes}


LIGHT = [c for c in CELLS if not c[1].startswith("nonideal")]
HEAVY = [c for c in CELLS if c[1].startswith("nonideal")]

PARTS = [
    Part("matrix", lambda tier: strategy(LIGHT), check, {"quick": 40 * len(LIGHT), "thorough": 1000 * len(LIGHT)},
         floor={"quick": 10 * len(LIGHT), "thorough": 200 * len(LIGHT)}),
    Part("matrix-non-ideal", lambda tier: strategy(HEAVY), check, {"quick": 40 * len(HEAVY), "thorough": 300 * len(HEAVY)},
         floor={"quick": 8 * len(HEAVY), "thorough": 50 * len(HEAVY)}, shrink={"quick": False, "thorough": True}),
]
