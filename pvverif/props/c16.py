"""C16 - curve fitting is pure, deterministic and returns the best candidate it tried."""
import glob
import math
import os

from hypothesis import strategies as st

from .. import REPO, build, gen, procs
from ..core import Discard, Part, Violation, call, history_machine, is_raised, relerr, replay_history, require
from ..observe import snapshot

ID = "C16"
RULE = ("fit part (stateful): one Measurements object (3..24 points at 1..4 temperatures, from a composition-dependent ground truth with noise or "
        "arbitrary positive values) and a history of 2..6 fit / find_best_fit calls on it (orders n,m 0..2 quick / 0..3 thorough, with/without "
        "zero points, both components, repeats); after every call the object must be deeply unchanged and the result bit-identical to the same "
        "call on a fresh equal copy; find_best_fit's loss on the supplied data <= that of every single fit within the requested orders. "
        "function part: random (n,m,alpha,a,b) evaluated against alpha*exp(sum a_i x^(i+1) - sum b_i x^i/T) and scaled by a constant. "
        "VLE part: built-in VLE files (enumerated; 2 smallest in the quick tier) and generated 6..12-point subsets: fit_vle(data) error <= error of "
        "each single optimisation method that returns, data unchanged, repeat identical. "
        "non-trivial = history with a zero-point call or a repeated call on the same object / every function and VLE case; distinct = SHA-1 of the case JSON")
ASSUMPTIONS = ["fits are deterministic functions of their input (Powell from a fixed start; measured on the pinned tree), so equality is bit-exact",
               "losses compared with a relative slack of 1e-12"]


# ------------------------------------------------------------------------------------------ fit histories
@st.composite
def data_strategy(draw, max_points=24):
    nt = draw(st.integers(1, 4))
    temps = [300.0 + 12.5 * i + draw(gen.uniform(0.0, 5.0)) for i in range(nt)]
    per = draw(st.integers(max(1, -(-3 // nt)), max(2, max_points // nt)))
    kind = draw(st.sampled_from(["truth", "truth", "arbitrary"]))
    tr = draw(procs.truth())[0]
    # overall magnitude of the permeances: kg/(m2 h kPa)-like, or raw SI-like numbers (1e-6..1e-8 of that)
    scale = draw(st.sampled_from([1.0, 1.0, 1e-3, 1e-6, 1e-8]))
    pts = []
    for t in temps:
        for _ in range(per):
            # mostly interior points; sometimes an exact pure-end point (x = 0 or 1), which coincides with the zero points fit() adds
            x = draw(st.one_of(gen.uniform(0.02, 0.98), gen.uniform(0.02, 0.98), gen.uniform(0.02, 0.98), st.sampled_from([0.0, 1.0])))
            if kind == "truth":
                p = procs.truth_value(tr, x, t) * (1.0 + draw(gen.uniform(-0.03, 0.03)))
            else:
                p = draw(gen.loguniform(1e-4, 1.0))
            pts.append([x, t, p * scale])
    return {"points": pts}


def call_args(tier):
    top = 2 if tier == "quick" else 3
    # None = the library's own default orders (used only on small data sets, see FitHistory.apply: the default grid grows with the data)
    order = st.one_of(st.integers(0, top), st.integers(0, top), st.integers(0, top), st.none())
    return st.fixed_dictionaries({"n": order, "m": order, "include_zero": st.booleans(), "component_index": st.integers(0, 1)})


def _measurements(points):
    from pyvaporation.optimizer.optimizer import Measurement, Measurements

    return Measurements(data=[Measurement(x=p[0], t=p[1], p=p[2]) for p in points])


def _coeffs(f):
    return snapshot([f.n, f.m, f.alpha, list(f.a), list(f.b)])


def _loss(f, points):
    return math.fsum((float(f(p[0], p[1])) - p[2]) ** 2 for p in points)


class FitHistory:
    def __init__(self, init):
        self.points = init["points"]
        self.data = _measurements(self.points)
        self.before = snapshot(self.data)
        self.first = {}
        self.seen = []
        self.zero = False
        self.repeat = False
        self.appended = False

    def apply(self, op):
        from pyvaporation import find_best_fit, fit

        name = op["op"]
        if name == "append":
            # the CALLER extends its data (a new point, possibly at a new temperature) - later fits must see exactly the new data
            from pyvaporation.optimizer.optimizer import Measurement

            pt = [op["x"], op["t"], op["p"] * (self.points[0][2] if self.points else 1.0)]
            self.data.append(Measurement(x=pt[0], t=pt[1], p=pt[2]))
            self.points = self.points + [pt]
            self.before = snapshot(self.data)
            self.first = {}
            self.appended = True
            return
        if name == "repeat":
            if not self.seen:
                return
            op = self.seen[op["which"] % len(self.seen)]
            name = op["op"]
        fn = fit if name == "fit" else find_best_fit
        if (op["n"] is None or op["m"] is None) and len(self.points) > 9:
            op = dict(op, n=1 if op["n"] is None else op["n"], m=0 if op["m"] is None else op["m"])  # defaults only on small sets (cost)
        kw = dict(n=op["n"], m=op["m"], include_zero=op["include_zero"], component_index=op["component_index"])
        sig = (name, op["n"], op["m"], op["include_zero"], op["component_index"])
        out = call(fn, self.data, **kw)
        after = snapshot(self.data)
        if after != self.before:
            raise Violation("%s(%r) modified the measurements it was given: %d points before, %d after"
                            % (name, kw, len(self.points), len(self.data.data)))
        if sig in self.first:
            self.repeat = True
        if op["include_zero"]:
            self.zero = True
        self.seen.append(dict(op, op=name))
        # same call on a fresh, equal copy
        fresh = call(fn, _measurements(self.points), **kw)
        if is_raised(out) or is_raised(fresh):
            require(is_raised(out) and is_raised(fresh), "%s(%r): %r on the shared object but %r on a fresh copy", name, kw, out, fresh)
            return
        if out is None or fresh is None:
            require(out is None and fresh is None, "%s(%r): %r on the shared object but %r on a fresh copy", name, kw, out, fresh)
            return
        require(_coeffs(out) == _coeffs(fresh), "%s(%r) on a data object used before gives (n,m,alpha,a,b) = %r, on a fresh equal copy %r",
                name, kw, (out.n, out.m, out.alpha, list(out.a), list(out.b)), (fresh.n, fresh.m, fresh.alpha, list(fresh.a), list(fresh.b)))
        if sig in self.first:
            require(self.first[sig] == _coeffs(out), "%s(%r) repeated on the same object gives different coefficients", name, kw)
        self.first[sig] = _coeffs(out)
        if name == "find_best_fit" and op["n"] is not None and op["m"] is not None:
            best = _loss(out, self.points)
            for n2 in range(op["n"] + 1):
                for m2 in range(op["m"] + 1):
                    single = call(fit, _measurements(self.points), n=n2, m=m2, include_zero=op["include_zero"], component_index=op["component_index"])
                    if is_raised(single):
                        continue
                    l2 = _loss(single, self.points)
                    if l2 == l2 and best == best:
                        require(best <= l2 * (1 + 1e-12) + 1e-300, "find_best_fit(%r) returned a function with squared error %r on the supplied data, "
                                "but the single fit n=%d, m=%d has %r", kw, best, n2, m2, l2)

    def summary(self):
        return {"nontrivial": (self.zero or self.repeat) and len(self.seen) >= 2, "classes": ["calls=%d" % len(self.seen)] +
                (["zero-points"] if self.zero else []) + (["repeat"] if self.repeat else []) + (["append"] if self.appended else [])}

    def close(self):
        pass


def fit_machine(tier, stats):
    rules = {"fit": call_args(tier), "find_best_fit": call_args(tier), "repeat": st.fixed_dictionaries({"which": st.integers(0, 5)}),
             "append": st.fixed_dictionaries({"x": gen.uniform(0.02, 0.98), "t": st.one_of(gen.uniform(290.0, 380.0), st.just(300.0)),
                                              "p": gen.uniform(0.5, 2.0)})}
    return history_machine("fit-histories", FitHistory, data_strategy(24 if tier == "quick" else 40), rules, stats, max_ops=6)


def check_fit_history(case):
    return replay_history(FitHistory, case)


# ------------------------------------------------------------------------------------------ function evaluation
@st.composite
def fn_strategy(draw):
    n, m = draw(st.integers(0, 3)), draw(st.integers(0, 3))
    return {"n": n, "m": m, "alpha": draw(gen.loguniform(1e-6, 1e3)),
            "a": [draw(gen.uniform(-5.0, 5.0)) for _ in range(n)], "b": [draw(gen.uniform(-3000.0, 8000.0)) for _ in range(m + 1)],
            "x": draw(gen.uniform(0.0, 1.0)), "T": draw(gen.uniform(250.0, 420.0)), "c": draw(gen.loguniform(1e-6, 1e6)),
            "via_array": draw(st.booleans())}


def check_fn(case):
    from pyvaporation import PervaporationFunction

    n, m = case["n"], case["m"]
    if case["via_array"]:
        import numpy

        f = PervaporationFunction.from_array(numpy.array([case["alpha"]] + case["a"] + case["b"]), n=n, m=m)
    else:
        f = PervaporationFunction(n=n, m=m, alpha=case["alpha"], a=list(case["a"]), b=list(case["b"]))
    x, t, c = case["x"], case["T"], case["c"]
    expo = math.fsum(case["a"][i] * x ** (i + 1) for i in range(n)) - math.fsum(case["b"][i] * x**i for i in range(m + 1)) / t
    ref = case["alpha"] * math.exp(expo)
    got = float(f(x, t))
    terms = sum(abs(case["a"][i]) * x ** (i + 1) for i in range(n)) + sum(abs(case["b"][i]) * x**i for i in range(m + 1)) / t
    require(relerr(got, ref) <= 1e-13 * (1.0 + terms), "f(%r,%r) = %r but alpha*exp(sum a_i x^(i+1) - sum b_i x^i/T) = %r (alpha=%r a=%r b=%r)",
            x, t, got, ref, case["alpha"], case["a"], case["b"])
    before = snapshot(f)
    g = f * c
    require(relerr(float(g(x, t)), c * got) <= 1e-14, "(f*%r)(%r,%r) = %r but %r*f = %r", c, x, t, float(g(x, t)), c, c * got)
    require(snapshot(f) == before, "multiplying a function by a constant modified the original")
    require((g.n, g.m) == (f.n, f.m), "scaled copy has different orders")
    return {"nontrivial": True, "classes": ["n=%d,m=%d" % (n, m)]}


# ------------------------------------------------------------------------------------------ VLE fits
def _vle_files():
    files = sorted(glob.glob(os.path.join(REPO, "tests", "VLE_data", "binary", "*.csv")))
    return sorted(files, key=lambda f: (sum(1 for _ in open(f)), f))


def vle_strategy(tier):
    names = [os.path.basename(f) for f in _vle_files()]
    whole = st.sampled_from(names[:2] if tier == "quick" else names).map(lambda n: {"file": n, "subset": None})
    sub = st.fixed_dictionaries({"file": st.sampled_from(names), "subset": st.lists(st.integers(0, 10**6), min_size=6, max_size=12, unique=True)})
    return st.one_of(whole, sub) if tier != "quick" else st.one_of(sub, sub, whole)


def check_vle(case):
    from pyvaporation import VLEPoints, fit_vle
    from pyvaporation.mixtures.uniquac_fitting import FITTING_ALGS, objective

    data = VLEPoints.from_csv(os.path.join(REPO, "tests", "VLE_data", "binary", case["file"]))
    if case["subset"] is not None:
        idx = sorted(set(i % len(data.data) for i in case["subset"]))
        if len(idx) < 4:
            raise Discard("subset collapsed")
        data = VLEPoints(components=data.components, data=[data.data[i] for i in idx])
    before = snapshot(data)
    best = call(fit_vle, data)
    require(snapshot(data) == before, "fit_vle modified the VLE points it was given")
    if is_raised(best):
        raise Discard("fit_vle raised %s" % best.type)
    import numpy

    def err(params):
        return float(objective(data, numpy.array([params.alpha_12, params.alpha_21, params.beta_12, params.beta_21, params.z])))

    e_best = err(best)
    tried = 0
    for alg in FITTING_ALGS:
        single = call(fit_vle, data, alg)
        if is_raised(single):
            continue
        e = err(single)
        tried += 1
        if e == e and e_best == e_best and e < 1000:
            require(e_best <= e * (1 + 1e-12), "fit_vle(data) has error %r on the data but the single method %s reaches %r", e_best, alg, e)
    again = call(fit_vle, data)
    require(not is_raised(again) and snapshot(again) == snapshot(best), "fit_vle repeated on equal data gives %r then %r", best, again)
    require(snapshot(data) == before, "fit_vle modified the VLE points it was given")
    return {"nontrivial": tried >= 2, "classes": [case["file"], "subset" if case["subset"] is not None else "whole-file"]}


PARTS = [
    Part("fit-histories", None, check_fit_history, {"quick": 64, "thorough": 2000}, floor={"quick": 10, "thorough": 300},
         shrink={"quick": False, "thorough": True}, machine=fit_machine, steps={"quick": 6, "thorough": 6}),
    Part("function", lambda tier: fn_strategy(), check_fn, {"quick": 8000, "thorough": 200000}, floor={"quick": 2000, "thorough": 20000}),
    Part("vle", vle_strategy, check_vle, {"quick": 32, "thorough": 320}, floor={"quick": 4, "thorough": 40},
         shrink={"quick": False, "thorough": False}),
]
# every shard's first example is Hypothesis' minimal one, so small budgets use fewer shards with >= 4 examples each
PARTS[2].min_per_shard = 4
PARTS[0].min_per_shard = 4
