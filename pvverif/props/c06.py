"""C06 - results do not depend on which component is called first."""
import math

import attr
from hypothesis import strategies as st

from .. import build, findings, gen, procs
from ..core import Discard, Part, Violation, call, is_raised, relerr, require
from ..observe import EvaluationCap, Trace
from ..solver import legit_exit_flip
from ..refmodels import uniquac_ln_gammas
from .c04 import _uq_consts, _uq_params

ID = "C06"
RULE = ("thermodynamic part: mixtures (8 built-in + synthetic) x {NRTL, UNIQUAC} x mole fraction in (0,1) x T 273..400 K; upper layers "
        "(flux solver, one-point ideal curve and its metrics, ideal isothermal / non-isothermal process, membrane selectivity): NRTL on any "
        "mixture and UNIQUAC on the tau12=tau21 family (where the known gamma_2 slip D1 cancels) x 3 permeate modes x membranes x conditions. "
        "The twin is built by the harness: components swapped, (g,a,alpha)12<->21, (alpha,beta)12<->21, p -> 1-p, experiments swapped. "
        "non-trivial = M1 != M2, feed fraction outside [0.45,0.55] and (upper layers) step-0 permeances differ; distinct = SHA-1 of the case JSON")
ASSUMPTIONS = ["relative tolerance 1e-9 plus the conditioning of 1-p (1e-15/min(p,1-p)), asserted for process/solver layers only when both "
               "runs used the same number of driving-force evaluations",
               "known finding D1 at the thermodynamic layer under UNIQUAC: recognised only when both the original and the relabelled result "
               "equal the published equation with exactly the gamma_2 bracket slip"]


def swap_mixture(mix):
    n, u = mix.nrtl_params, mix.uniquac_params
    n2 = None if n is None else attr.evolve(n, g12=n.g21, g21=n.g12, a12=n.a21, a21=n.a12,
                                            alpha12=n.alpha12 if n.alpha21 is None else n.alpha21,
                                            alpha21=None if n.alpha21 is None else n.alpha12)
    u2 = None if u is None else attr.evolve(u, alpha_12=u.alpha_21, alpha_21=u.alpha_12, beta_12=u.beta_21, beta_21=u.beta_12)
    return build.Mixture(name=mix.name + "-swapped", first_component=mix.second_component, second_component=mix.first_component,
                         nrtl_params=n2, uniquac_params=u2)


def tol_for(p):
    return 1e-9 + 1e-13 / max(min(p, 1.0 - p), 1e-300)  # 1 - p carries eps/min(p,1-p) relative error (x10 margin: thorough-tier false alarm at 1.1e-8)


# ------------------------------------------------------------------------------------- thermodynamics
def thermo_strategy(tier):
    @st.composite
    def s(draw):
        mdl = draw(gen.model)
        return {"mixture": draw(gen.mixture((mdl,), 0.4)), "model": mdl, "x": draw(gen.fraction()), "T": draw(gen.feed_temperature)}

    return s()


def check_thermo(case):
    from pyvaporation.mixtures import get_partial_pressures
    from pyvaporation.mixtures.mixture import calculate_activity_coefficients

    mix = build.mixture(case["mixture"])
    twin = swap_mixture(mix)
    x, t, mdl = case["x"], case["T"], case["model"]
    g = call(calculate_activity_coefficients, t, mix, build.composition(x, "molar"), mdl)
    g2 = call(calculate_activity_coefficients, t, twin, build.composition(1.0 - x, "molar"), mdl)
    require(not is_raised(g) and not is_raised(g2), "activity coefficients raised: %r / %r", g, g2)
    g, g2 = (float(g[0]), float(g[1])), (float(g2[0]), float(g2[1]))
    if not all(math.isfinite(v) and v > 0 for v in g + g2):
        raise Discard("activity coefficient under/overflows the double range")
    tol = tol_for(x)
    known = []
    ok = relerr(g[0], g2[1]) <= tol and relerr(g[1], g2[0]) <= tol
    if not ok:
        d1 = False
        if mdl == "UNIQUAC":
            try:
                c1, c2 = _uq_consts(mix.first_component), _uq_consts(mix.second_component)
                s1 = uniquac_ln_gammas(x, t, _uq_params(mix), c1, c2, slip=True)
                s2 = uniquac_ln_gammas(1.0 - x, t, _uq_params(twin), c2, c1, slip=True)
                p1 = uniquac_ln_gammas(x, t, _uq_params(mix), c1, c2, slip=False)
                p2 = uniquac_ln_gammas(1.0 - x, t, _uq_params(twin), c2, c1, slip=False)
                same = all(abs(math.log(a) - b) <= 1e-9 * abs(b) + 1e-13 for a, b in zip(g + g2, s1 + s2))
                slack = 1e-12 / min(x, 1 - x)
                pub_sym = (abs(p1[0] - p2[1]) <= 1e-9 * max(1, abs(p1[0])) + slack
                           and abs(p1[1] - p2[0]) <= 1e-9 * max(1, abs(p1[1])) + slack)
                d1 = same and pub_sym
            except (OverflowError, ValueError, ZeroDivisionError):
                d1 = False
        if d1 and findings.is_known("D1", ID):
            known.append("D1")
        else:
            raise Violation("%s activity coefficients are not relabelling-symmetric at x1=%r, T=%r: (g1,g2) = %r, relabelled mixture at "
                            "1-x gives %r (expected the pair exchanged)" % (mdl, x, t, g, g2))
    if not known:
        pp = get_partial_pressures(t, mix, build.composition(x, "molar"), mdl)
        pp2 = get_partial_pressures(t, twin, build.composition(1.0 - x, "molar"), mdl)
        require(relerr(pp[0], pp2[1]) <= tol and relerr(pp[1], pp2[0]) <= tol, "partial pressures %r vs relabelled %r", pp, pp2)
    m1, m2 = mix.first_component.molecular_weight, mix.second_component.molecular_weight
    nontrivial = abs(m1 - m2) > 1e-9 and not (0.45 <= x <= 0.55) and max(abs(math.log(g[0])), abs(math.log(g[1]))) > 1e-3
    return {"nontrivial": nontrivial, "classes": [mdl, "builtin" if "builtin" in case["mixture"] else "synthetic"], "known": known}


# ------------------------------------------------------------------------------------- upper layers
@st.composite
def upper_strategy(draw):
    mdl = draw(st.sampled_from(["NRTL", "NRTL", "UNIQUAC"]))
    if mdl == "NRTL":
        c = draw(procs.process_case(kinds=("ideal-iso", "ideal-noniso"), models=("NRTL",),
                                    removal=(1e-5, 0.1) if draw(st.integers(0, 4)) else (0.1, 3.0), max_steps=5))
    else:
        c = draw(procs.process_case(kinds=("ideal-iso", "ideal-noniso"), models=("UNIQUAC",), removal=(1e-5, 0.1), max_steps=5,
                                    builtin_share=0.0, uq_family="symmetric"))
    if draw(st.integers(0, 2)) == 0:  # experiments stated in SI / GPU, feed sometimes exactly at an experiment temperature
        c["membrane"] = draw(gen.membrane(3, draw(st.sampled_from([("SI",), ("GPU",)]))))
        if draw(st.booleans()):
            c["T"] = c["membrane"]["e1"][0]["T"]
            c["membrane"]["e2"][0]["T"] = c["T"]
            if c["perm"]["mode"] == "temperature":
                c["perm"] = dict(c["perm"], T=min(c["perm"]["T"], c["T"]))
    return c


def _traced(pv, fn):
    with Trace(pv, cap=60000, keep=False) as tr:
        out = call(fn)
    return out, list(tr.per_call)


def check_upper(case):
    s = procs.setup(case)
    mix, mem = s.mix, s.mem
    twin = swap_mixture(mix)
    # experiments are looked up by component name, so the SAME Membrane object serves the relabelled mixture; half of the cases use it
    # (state kept on the membrane between the two runs must not matter), the other half a membrane with the experiment lists exchanged
    if int(case["removal"] * 1e7) % 2 == 0:
        mem2 = mem
        classes_extra = ["same-membrane-object"]
    else:
        mem2 = build.membrane({"name": "M", "e1": case["membrane"]["e2"], "e2": case["membrane"]["e1"],
                               "interleave": case["membrane"].get("interleave")}, twin)
        classes_extra = ["exchanged-membrane"]
    pv, pv2 = s.pv, build.Pervaporation(membrane=mem2, mixture=twin)
    x, t, mdl, perm, prec = case["x"], case["T"], case["model"], case["perm"], case["precision"]
    tol = tol_for(x) * 10
    classes = procs.classes_of(case) + classes_extra
    comp, comp2 = build.composition(x, case["basis"]), build.composition(1.0 - x, case["basis"])
    try:
        # membrane
        for ct in ("weight", "molar"):
            a = call(mem.get_ideal_selectivity, t, mix.first_component, mix.second_component, ct)
            b = call(mem2.get_ideal_selectivity, t, twin.first_component, twin.second_component, ct)
            if not is_raised(a) and not is_raised(b) and math.isfinite(float(a)) and float(a) > 0:
                require(relerr(float(a) * float(b), 1.0) <= 1e-12, "ideal %s selectivity %r is not the inverse of the relabelled one %r", ct, float(a), float(b))
        # solver
        kw = dict(feed_temperature=t, precision=prec, permeate_temperature=perm["T"], permeate_pressure=perm["p"], calculation_type=mdl)
        with Trace(pv, cap=60000, keep=True) as tra:
            j = call(pv.calculate_partial_fluxes, composition=comp, **kw)
        with Trace(pv2, cap=60000, keep=True) as trb:
            j2 = call(pv2.calculate_partial_fluxes, composition=comp2, **kw)
        e1, e2 = list(tra.per_call), list(trb.per_call)
        if not is_raised(j) and not is_raised(j2) and e1 != e2 and not legit_exit_flip(tra.evals, trb.evals, prec, complement=True):
            raise Violation("the flux iteration stopped after %r evaluations for the original and %r for the relabelled mixture although the "
                            "step size was not at a rounding tie with the precision %r: the stopping decision depends on the labelling"
                            % (e1, e2, prec))
        if is_raised(j) != is_raised(j2):
            if e1 == e2:
                raise Violation("flux calculation %s but the relabelled one %s" % ("raised %r" % j if is_raised(j) else "returned", "raised %r" % j2 if is_raised(j2) else "returned"))
            raise Discard("exit flip between twins")
        if is_raised(j):
            raise Discard("solver raised %s" % j.type)
        # only ONE of the two optional permeances supplied: first component's for the original, second component's for the twin
        one = build.permeance(0.0123)
        ja = call(pv.calculate_partial_fluxes, composition=comp, first_component_permeance=one, **kw)
        jb = call(pv2.calculate_partial_fluxes, composition=comp2, second_component_permeance=one, **kw)
        if not is_raised(ja) and not is_raised(jb) and e1 == e2:
            for i in (0, 1):
                require(abs(float(ja[i]) - float(jb[1 - i])) <= 1e-6 * (abs(float(ja[0])) + abs(float(ja[1]))),
                        "with only one permeance argument supplied: fluxes %r, relabelled %r (expected exchanged)",
                        (float(ja[0]), float(ja[1])), (float(jb[0]), float(jb[1])))
        flip = e1 != e2
        amp = 1.0
        if not flip:
            # conditioning: the minor permeate fraction 1-y carries a relative rounding error eps/min(y,1-y), which enters the
            # permeate-side pressure (bounded by the vacuum flux scale P_i x pf_i)
            jv = call(pv.calculate_partial_fluxes, feed_temperature=t, composition=comp, calculation_type=mdl)
            yy = float(j[0]) / (float(j[0]) + float(j[1])) if float(j[0]) + float(j[1]) != 0 else 0.5
            edge = max(min(yy, 1.0 - yy), 1e-300)
            # the smallest fraction met by ANY iterate counts: its complement 1-y carries eps/min(y,1-y) relative error, which the
            # next evaluation hands on to the minor flux (thorough-tier false alarm: first iterate 2.7e-11, final 1.7e-7)
            its = [e[0] for e in tra.evals if e[0] is not None]
            if its:
                edge = max(min(edge, min(min(v, 1.0 - v) for v in its)), 1e-300)
            edge_it = edge
            tot = abs(float(j[0])) + abs(float(j[1]))  # with back pressure the permeate-side term (~ total flux scale) can dominate
            # near equilibrium the rounding of one iterate is amplified by the cancellation factor before it reaches the next flux
            amp = 1.0 if is_raised(jv) else max(1.0, max(abs(float(jv[i])) / max(abs(float(j[i])), 1e-300) for i in (0, 1)))
            for i in (0, 1):
                slack = 8e-16 * amp * max(tot, 0.0 if is_raised(jv) else abs(float(jv[i]))) / edge
                require(abs(float(j[i]) - float(j2[1 - i])) <= tol * max(abs(float(j[i])), abs(float(j2[1 - i]))) + slack,
                        "solver fluxes %r, relabelled %r (expected exchanged)", (float(j[0]), float(j[1])), (float(j2[0]), float(j2[1])))
            # one-point curve and its metrics
            dc = call(pv.ideal_diffusion_curve, t, [comp], perm["T"], perm["p"], prec, mdl)
            dc2 = call(pv2.ideal_diffusion_curve, t, [comp2], perm["T"], perm["p"], prec, mdl)
            if not is_raised(dc) and not is_raised(dc2):
                for i in (0, 1):
                    slack = 8e-16 * amp * max(tot, 0.0 if is_raised(jv) else abs(float(jv[i]))) / edge
                    a, b = float(dc.partial_fluxes[0][i]), float(dc2.partial_fluxes[0][1 - i])
                    require(abs(a - b) <= tol * max(abs(a), abs(b)) + slack, "curve fluxes %r, relabelled %r (expected exchanged)",
                            dc.partial_fluxes[0], dc2.partial_fluxes[0])
                sf, sf2 = float(dc.get_separation_factor[0]), float(dc2.get_separation_factor[0])
                yc, wc = dc.permeate_composition[0].p, comp.to_weight(mix).p
                edge = min(yc, 1 - yc, wc, 1 - wc, edge_it)
                if math.isfinite(sf) and sf > 0 and math.isfinite(sf2) and edge > 1e-9:
                    require(relerr(sf * sf2, 1.0) <= 100 * tol + 1e-13 * amp / edge, "curve separation factor %r is not the inverse of the relabelled one %r", sf, sf2)
                if mdl == "NRTL":  # a curve inverts fluxes with NRTL whatever model produced them
                    se, se2 = float(dc.get_selectivity[0]), float(dc2.get_selectivity[0])
                    # the inversion divides by feed - permeate pressure: rounding in the iterate is amplified by the cancellation
                    # factor (vacuum flux / flux) once in the solver and once in the inversion (thorough-tier false alarm near equilibrium)
                    cond = 1.0 if is_raised(jv) else max(1.0, max(abs(float(jv[i])) / max(abs(float(j[i])), 1e-300) for i in (0, 1)))
                    # beyond cond ~ 300 (driving force < 0.3% of the pressures) three successive amplifications (iterate -> flux ->
                    # inversion) turn last-bit differences into 1e-5 and the comparison is undecidable (second false alarm there)
                    if math.isfinite(se) and se > 0 and math.isfinite(se2) and cond <= 300.0:
                        require(relerr(se * se2, 1.0) <= 1000 * tol + 1e-13 * cond * cond / edge,
                                "curve selectivity %r is not the inverse of the relabelled one %r", se, se2)
        # processes
        dt = procs.step_length(case, s)
        cond = procs.conditions_spec(case, s, dt)
        m, e1 = _traced(pv, lambda: procs.run(case, s, dt, cond_spec=cond))
        s2 = procs.Setup()
        s2.pv, s2.curves, s2.initial, s2.mix = pv2, None, None, twin
        m2, e2 = _traced(pv2, lambda: procs.run(case, s2, dt, cond_spec=dict(cond, x=1.0 - cond["x"])))
        def borderline(model):
            return procs.lookahead_borderline(model, cond["area"], dt)

        returned = m2 if is_raised(m) else m
        if is_raised(m) != is_raised(m2) and len(e1) == len(e2) and e1[:max(len(e1) - 1, 0)] == e2[:max(len(e2) - 1, 0)] \
                and min(x, 1 - x) > 1e-3 and not borderline(returned):
            raise Violation("the %s process %s but the relabelled one %s (same number of flux calculations, %d)"
                            % (case["kind"], "raised %r" % m if is_raised(m) else "returned", "raised %r" % m2 if is_raised(m2) else "returned", len(e1)))
        if not flip and amp > 300.0:
            classes.append("ill-conditioned")  # driving force < 0.3% of the pressures: rounding is amplified beyond any fixed tolerance
        elif is_raised(m) or is_raised(m2) or e1 != e2:
            classes.append("process-not-compared")
        else:
            n = case["steps"]
            ptol = tol * 10
            for k in range(n):
                tot = abs(float(m.partial_fluxes[k][0])) + abs(float(m.partial_fluxes[k][1]))
                yk = m.permeate_composition[k].p
                vac = None if (flip or is_raised(jv)) else abs(float(jv[0])) + abs(float(jv[1]))
                if min(yk, 1 - yk, m.feed_compositions[k].p, 1 - m.feed_compositions[k].p) < 1e-3 or (vac is not None and vac > 300.0 * tot):
                    # a nearly exhausted component, or a driving force that has decayed below 0.3% of the pressures (the run approaches
                    # equilibrium with the permeate side): rounding is amplified at this step and carried into all later ones
                    # (thorough-tier false alarm, 1.2e-6 after four coarse steps); the comparison stops here
                    classes.append("stopped-at-ill-conditioned-step")
                    break
                for i in (0, 1):
                    a, b = float(m.partial_fluxes[k][i]), float(m2.partial_fluxes[k][1 - i])
                    require(abs(a - b) <= ptol * max(abs(a), abs(b)) + 1e-13 * tot / max(min(yk, 1 - yk), 1e-300),
                            "step %d: flux %d %r vs relabelled flux %d %r", k, i + 1, a, 2 - i, b)
                require(relerr(m.feed_mass[k], m2.feed_mass[k]) <= ptol, "step %d: feed mass %r vs %r", k, float(m.feed_mass[k]), float(m2.feed_mass[k]))
                require(relerr(m.feed_temperature[k], m2.feed_temperature[k]) <= ptol, "step %d: temperature %r vs %r", k,
                        float(m.feed_temperature[k]), float(m2.feed_temperature[k]))
                require(relerr(m.feed_evaporation_heat[k], m2.feed_evaporation_heat[k]) <= ptol, "step %d: evaporation heat %r vs relabelled %r", k,
                        float(m.feed_evaporation_heat[k]), float(m2.feed_evaporation_heat[k]))
                ca, cb = m.permeate_condensation_heat[k], m2.permeate_condensation_heat[k]
                require((ca is None) == (cb is None), "condensation heat presence differs")
                if ca is not None:
                    require(relerr(ca, cb) <= 10 * ptol, "step %d: condensation heat %r vs relabelled %r", k, float(ca), float(cb))
                require(abs(m.feed_compositions[k].p + m2.feed_compositions[k].p - 1.0) <= ptol, "step %d: feed fractions %r and %r do not complement",
                        k, m.feed_compositions[k].p, m2.feed_compositions[k].p)
                require(abs(m.permeate_composition[k].p + m2.permeate_composition[k].p - 1.0) <= ptol, "step %d: permeate fractions do not complement", k)
                sf, sf2 = float(m.get_separation_factor[k]), float(m2.get_separation_factor[k])
                yk, wk = m.permeate_composition[k].p, m.feed_compositions[k].p
                edge = min(yk, 1 - yk, wk, 1 - wk)  # y/(1-y) amplifies last-bit differences by 1/min(y,1-y)
                if math.isfinite(sf) and sf > 0 and math.isfinite(sf2) and edge > 1e-9:
                    require(relerr(sf * sf2, 1.0) <= 1000 * ptol + 1e-13 / edge, "step %d: separation factor %r not inverse of %r", k, sf, sf2)
                se, se2 = float(m.get_selectivity[k]), float(m2.get_selectivity[k])
                if math.isfinite(se) and se > 0 and math.isfinite(se2):
                    require(relerr(se * se2, 1.0) <= ptol, "step %d: selectivity %r not inverse of %r", k, se, se2)
            classes.append("process-compared")
    except EvaluationCap:
        raise Discard("evaluation cap reached (termination is C10's subject)")
    p1, p2 = procs.step0_permeances(case, s)
    nontrivial = abs(s.m1 - s.m2) > 1e-9 and not (0.45 <= x <= 0.55) and relerr(p1, p2) > 1e-6 and "process-compared" in classes
    return {"nontrivial": nontrivial, "classes": classes}


def _probe_d1():
    from .c04 import probe_d1

    return probe_d1()


KNOWN_PROBES = {"D1": _probe_d1}

PARTS = [
    Part("thermodynamics", thermo_strategy, check_thermo, {"quick": 12000, "thorough": 300000}, floor={"quick": 2000, "thorough": 30000}),
    Part("solver-curve-process", lambda tier: upper_strategy(), check_upper, {"quick": 2400, "thorough": 80000},
         floor={"quick": 250, "thorough": 8000}),
]
