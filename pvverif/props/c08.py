"""C08 - all entry points answer the same question identically (incl. activity-model choice)."""
import math

from hypothesis import strategies as st

from .. import build, gen
from ..core import Discard, Part, call, is_raised, relerr, require
from ..observe import EvaluationCap, Trace
from ..refmodels import to_weight

ID = "C08"
RULE = ("cases: membrane (1..4 experiments per component, stated/regressed Ea) x mixture (built-in/synthetic) x {NRTL, UNIQUAC} x feed state "
        "(molar or mass fraction) x 3 permeate modes x precision; ideal processes with 1..6 steps removing 1e-4..0.2 of the feed per step, "
        "with/without temperature programme. Oracle: standalone flux calculation (keyword call) vs permeate-composition helper, "
        "separation-factor helper, one-point ideal diffusion curve (fluxes, permeate composition, separation factor, PSI), step 0 of the "
        "process models, and EVERY step of every process vs a standalone calculation at that step's reported state. "
        "Also: the parameters of the model that was NOT selected are moved - every entry point must answer bit-identically; the standalone "
        "calculation uses the permeate condition the step reports. "
        "non-trivial = NRTL and UNIQUAC fluxes differ by > 1e-6 relative at the case (a silent fall-back to the default model is visible) "
        "and the reference call returned; distinct = SHA-1 of the case JSON")
ASSUMPTIONS = ["same code path with the same arguments: relative tolerance 1e-12",
               "the separation factor (y1/y2)/(x1/x2) is basis independent, so one reference value serves mass and molar formulations"]
TOL = 1e-12


@st.composite
def strategy(draw, tier="quick"):
    mix = draw(gen.mixture(("NRTL", "UNIQUAC"), 0.5))
    t = draw(gen.feed_temperature)
    steps = draw(st.integers(1, 6))
    mem = draw(gen.membrane(4, draw(st.sampled_from([("kg/(m2*h*kPa)",), ("kg/(m2*h*kPa)",), ("SI",), ("GPU",)]))))
    if draw(st.integers(0, 3)) == 0:
        t = mem["e1"][0]["T"]  # feed exactly at an experiment temperature (no Arrhenius correction on that branch)
        mem["e2"][0]["T"] = t if draw(st.booleans()) else mem["e2"][0]["T"]
    c = {
        "mixture": mix, "model": draw(gen.model), "T": t, "x": draw(gen.mid_fraction()), "basis": draw(gen.basis),
        "perm": draw(gen.permeate(t)), "precision": draw(gen.precision),
        "membrane": mem, "steps": steps, "removal": draw(gen.loguniform(1e-8, 0.2)),
        "ramp": draw(st.sampled_from([15.0, 1.0, 0.02, 1e-3])),
        "area": draw(gen.loguniform(1e-3, 1e3)), "amount": draw(gen.loguniform(1e-3, 1e3)),
        "program": draw(st.booleans()),
    }
    return c


def _solver(pv, case, comp, t, p1=None, p2=None, model=None, reported=None):
    """reported = (process model, step): the standalone calculation then uses the permeate condition the model REPORTS for
    that step, not the one the harness asked for."""
    tp, pp = case["perm"]["T"], case["perm"]["p"]
    if reported is not None:
        m, k = reported
        tp, pp = m.permeate_temperature[k], m.permeate_pressure[k]
        tp = None if tp is None or tp != tp else tp
        pp = None if pp is None or pp != pp else pp
        require(_same_cond(tp, case["perm"]["T"]) and _same_cond(pp, case["perm"]["p"]),
                "step %d reports permeate temperature %r / pressure %r, the process was run with %r / %r", k, tp, pp,
                case["perm"]["T"], case["perm"]["p"])
    kw = dict(feed_temperature=t, composition=comp, precision=case["precision"],
              permeate_temperature=tp, permeate_pressure=pp,
              calculation_type=model or case["model"])
    if p1 is not None:
        kw.update(first_component_permeance=p1, second_component_permeance=p2)
    return call(pv.calculate_partial_fluxes, **kw)


def _same_cond(a, b):
    return (a is None and b is None) or (a is not None and b is not None and float(a) == float(b))


def _same_fluxes(a, b, what, scale=None):
    """Same question, same answer.  `scale` = un-cancelled flux scale (permeance x feed partial pressure): entry points that
    convert the composition on the way (molar -> mass -> molar) perturb it by one rounding, which the cancellation
    feed - permeate pressure amplifies relative to the flux itself (thorough-tier false alarm, DESIGN section 12)."""
    for i in (0, 1):
        slack = 0.0 if scale is None else 1e-11 * abs(float(scale[i]))
        require(abs(float(a[i]) - float(b[i])) <= TOL * max(abs(float(a[i])), abs(float(b[i]))) + slack,
                "%s: flux %d = %r, standalone flux calculation gives %r", what, i + 1, float(a[i]), float(b[i]))


def sep_factor(y, w):
    return (y / (1.0 - y)) / (w / (1.0 - w))


def check(case):
    mix = build.mixture(case["mixture"])
    mem = build.membrane(case["membrane"], mix)
    pv = build.Pervaporation(membrane=mem, mixture=mix)
    comp = build.composition(case["x"], case["basis"])
    t, perm, prec, mdl = case["T"], case["perm"], case["precision"], case["model"]
    m1, m2 = mix.first_component.molecular_weight, mix.second_component.molecular_weight
    w = case["x"] if case["basis"] == "weight" else to_weight(case["x"], m1, m2)
    classes = [mdl, perm["mode"], case["basis"], "builtin" if "builtin" in case["mixture"] else "synthetic"]
    try:
        with Trace(pv, cap=60000, keep=False):
            return _body(case, mix, pv, comp, t, perm, prec, mdl, w, classes)
    except EvaluationCap:
        raise Discard("evaluation cap reached (termination is C10's subject)")


def _body(case, mix, pv, comp, t, perm, prec, mdl, w, classes):
    ref = _solver(pv, case, comp, t)
    if is_raised(ref):
        raise Discard("reference flux calculation raised %s" % ref.type)
    j = (float(ref[0]), float(ref[1]))
    if not (all(math.isfinite(v) for v in j) and j[0] + j[1] > 0 and 0 < j[0] / (j[0] + j[1]) < 1):
        raise Discard("reference fluxes not finite/positive")
    y = j[0] / (j[0] + j[1])
    vac = call(pv.calculate_partial_fluxes, feed_temperature=t, composition=comp, calculation_type=mdl)
    scale = None if is_raised(vac) else (float(vac[0]), float(vac[1]))
    other = _solver(pv, case, comp, t, model="UNIQUAC" if mdl == "NRTL" else "NRTL")
    differs = (not is_raised(other)) and max(relerr(other[0], j[0]), relerr(other[1], j[1])) > 1e-6

    # helper: permeate composition
    pc = call(pv.calculate_permeate_composition, t, comp, prec, perm["T"], perm["p"], mdl)
    require(not is_raised(pc), "calculate_permeate_composition raised %r although the flux calculation returned", pc)
    require(pc.type == "weight", "permeate composition has type %r", pc.type)
    require(abs(pc.p - y) <= TOL, "calculate_permeate_composition(%s) = %r but flux1/(flux1+flux2) of the flux calculation = %r", mdl, pc.p, y)
    # helper: separation factor
    sf = call(pv.calculate_separation_factor, t, comp, perm["T"], perm["p"], prec, mdl)
    require(not is_raised(sf), "calculate_separation_factor raised %r", sf)
    sf_ref = sep_factor(y, w)
    require(relerr(sf, sf_ref) <= 1e-9, "calculate_separation_factor = %r but (y1/y2)/(x1/x2) = %r (y=%r, feed mass fraction %r, input basis %s)",
            float(sf), sf_ref, y, w, case["basis"])
    # one-point ideal diffusion curve
    dc = call(pv.ideal_diffusion_curve, t, [comp], perm["T"], perm["p"], prec, mdl)
    require(not is_raised(dc), "ideal_diffusion_curve raised %r", dc)
    _same_fluxes(dc.partial_fluxes[0], j, "ideal_diffusion_curve(%s)" % mdl, scale)
    require(abs(dc.permeate_composition[0].p - y) <= TOL, "curve permeate composition %r != %r", dc.permeate_composition[0].p, y)
    require(relerr(dc.get_separation_factor[0], sf_ref) <= 1e-9, "curve separation factor %r but (y1/y2)/(x1/x2) = %r (input basis %s)",
            float(dc.get_separation_factor[0]), sf_ref, case["basis"])
    require(relerr(dc.get_psi[0], (j[0] + j[1]) * (sf_ref - 1.0)) <= 1e-9 + 1e-12 * abs(sf_ref) / max(abs(sf_ref - 1), 1e-300),
            "curve PSI %r != total flux x (separation factor - 1) = %r", float(dc.get_psi[0]), (j[0] + j[1]) * (sf_ref - 1.0))

    # "the selected activity model is honoured": the answers do not depend on the parameters of the model that was NOT selected
    import attr

    other_field = "uniquac_params" if mdl == "NRTL" else "nrtl_params"
    other_params = getattr(mix, other_field)
    if other_params is not None:
        if mdl == "NRTL":
            moved = attr.evolve(other_params, alpha_12=other_params.alpha_12 * 1.37 + 11.0, beta_21=other_params.beta_21 * 0.61 - 3.0)
        else:
            moved = attr.evolve(other_params, g12=other_params.g12 * 1.37 + 150.0, g21=other_params.g21 * 0.61 - 90.0)
        mix2 = attr.evolve(mix, **{other_field: moved})
        pv2 = build.Pervaporation(membrane=pv.membrane, mixture=mix2)
        with Trace(pv2, cap=60000, keep=False):
            what2 = "with other %s of the mixture (model %s selected)" % (other_field, mdl)
            r2 = _solver(pv2, case, comp, t)
            require(not is_raised(r2) and float(r2[0]) == j[0] and float(r2[1]) == j[1],
                    "flux calculation %s gives %r, before %r", what2, r2, j)
            pc2 = call(pv2.calculate_permeate_composition, t, comp, prec, perm["T"], perm["p"], mdl)
            require(not is_raised(pc2) and pc2.p == pc.p, "calculate_permeate_composition %s gives %r, before %r", what2, pc2, pc)
            sf2 = call(pv2.calculate_separation_factor, t, comp, perm["T"], perm["p"], prec, mdl)
            require(not is_raised(sf2) and float(sf2) == float(sf), "calculate_separation_factor %s gives %r, before %r", what2, sf2, sf)
            dc2 = call(pv2.ideal_diffusion_curve, t, [comp], perm["T"], perm["p"], prec, mdl)
            require(not is_raised(dc2) and all(float(dc2.partial_fluxes[0][i]) == float(dc.partial_fluxes[0][i]) for i in (0, 1)),
                    "ideal_diffusion_curve %s gives fluxes %r, before %r", what2,
                    None if is_raised(dc2) else dc2.partial_fluxes[0], dc.partial_fluxes[0])
        classes.append("other-model-parameters-moved")

    # ideal process models
    dt = case["removal"] * case["amount"] / (case["area"] * (j[0] + j[1]))
    cond = {"area": case["area"], "T": t, "amount": case["amount"], "x": case["x"], "basis": case["basis"],
            "Tp": perm["T"], "pp": perm["p"]}
    nproc = 0
    for kind in ("iso", "noniso", "noniso-program"):
        spec = dict(cond)
        if kind == "noniso-program":
            if not case["program"]:
                continue
            ramp = case.get("ramp", 15.0)  # total temperature change over the run: fast ... very slow programmes
            spec["program"] = {"type": "polynomial", "coefficients": [t, (min(t + ramp, 400.0) - t) / (dt * max(case["steps"], 1))]}
        conditions = build.conditions(spec)
        if kind == "iso":
            model = call(pv.ideal_isothermal_process, case["steps"], dt, conditions, prec, mdl)
        else:
            model = call(pv.ideal_non_isothermal_process, conditions, case["steps"], dt, prec, mdl)
        if is_raised(model):
            classes.append("process-raised")
            continue
        nproc += 1
        _same_fluxes(model.partial_fluxes[0], j, "step 0 of the %s process (%s)" % (kind, mdl), scale)
        for k in range(len(model.partial_fluxes)):
            jk = model.partial_fluxes[k]
            alone = _solver(pv, case, model.feed_compositions[k], model.feed_temperature[k],
                            model.permeances[k][0], model.permeances[k][1], reported=(model, k))
            require(not is_raised(alone), "standalone flux calculation at the reported state of step %d raised %r", k, alone)
            _same_fluxes(jk, alone, "step %d of the %s process (%s)" % (k, kind, mdl))
            # ideal models: the same membrane answers the standalone question at the reported temperature and composition
            own = _solver(pv, case, model.feed_compositions[k], model.feed_temperature[k])
            if not is_raised(own):
                _same_fluxes(jk, own, "step %d of the %s process (%s) vs the membrane-based standalone calculation at the reported "
                                      "temperature %r" % (k, kind, mdl, float(model.feed_temperature[k])))
            yk = float(jk[0]) / (float(jk[0]) + float(jk[1]))
            require(abs(model.permeate_composition[k].p - yk) <= TOL, "step %d permeate composition %r != flux1/(flux1+flux2) = %r",
                    k, model.permeate_composition[k].p, yk)
            wk = model.feed_compositions[k]
            require(wk.type == "weight", "process feed composition of type %r", wk.type)
            if not (0.0 < yk < 1.0 and 0.0 < wk.p < 1.0):
                continue  # separation factor undefined at a pure feed / permeate
            sfk = sep_factor(yk, wk.p)
            require(relerr(model.get_separation_factor[k], sfk) <= 1e-9, "step %d separation factor %r != %r", k,
                    float(model.get_separation_factor[k]), sfk)
            require(relerr(model.get_psi[k], (float(jk[0]) + float(jk[1])) * (sfk - 1.0)) <= 1e-9 + 1e-12 * abs(sfk) / max(abs(sfk - 1), 1e-300),
                    "step %d PSI %r != %r", k, float(model.get_psi[k]), (float(jk[0]) + float(jk[1])) * (sfk - 1.0))
    classes.append("processes=%d" % nproc)
    classes.append("models-differ" if differs else "models-agree")
    return {"nontrivial": differs, "classes": classes}


def check_nonideal(case):
    """Every step of a non-ideal process equals a standalone flux calculation at its reported state; started with the
    membrane's own permeances, step 0 equals the membrane-based standalone calculation."""
    from .. import procs

    s = procs.setup(case)
    mix, pv = s.mix, s.pv
    kg = build.KG
    p0 = tuple(float(s.mem.get_permeance(case["T"], c).convert(kg, c).value) for c in (mix.first_component, mix.second_component))
    from ..refmodels import convert_units

    u = case.get("init_units", kg)  # the membrane's own permeances, handed over in kg/(m2 h kPa), SI or GPU
    s.initial = (build.permeance(convert_units(p0[0], kg, u, s.m1), u), build.permeance(convert_units(p0[1], kg, u, s.m2), u))
    case = dict(case, initial={"p1": p0[0], "p2": p0[1], "units": u})
    classes = procs.classes_of(case)
    try:
        with Trace(pv, cap=60000, keep=False):
            dt = procs.step_length(case, s)
            model = procs.run(case, s, dt)
            if is_raised(model):
                raise Discard("model raised %s" % model.type)
            ref = _solver(pv, case, build.composition(s.x, s.basis), case["T"])
            if is_raised(ref):
                raise Discard("reference flux calculation raised %s" % ref.type)
            vac = call(pv.calculate_partial_fluxes, feed_temperature=case["T"], composition=build.composition(s.x, s.basis), calculation_type=case["model"])
            _same_fluxes(model.partial_fluxes[0], ref, "step 0 of the %s process started with the membrane's permeances" % case["kind"],
                         None if is_raised(vac) else (float(vac[0]), float(vac[1])))
            for k in range(len(model.partial_fluxes)):
                jk = model.partial_fluxes[k]
                alone = _solver(pv, case, model.feed_compositions[k], float(model.feed_temperature[k]), model.permeances[k][0], model.permeances[k][1],
                                reported=(model, k))
                require(not is_raised(alone), "standalone flux calculation at the reported state of step %d raised %r", k, alone)
                _same_fluxes(jk, alone, "step %d of the %s process (%s)" % (k, case["kind"], case["model"]))
                yk = float(jk[0]) / (float(jk[0]) + float(jk[1]))
                require(abs(model.permeate_composition[k].p - yk) <= TOL, "step %d permeate composition %r != flux1/(flux1+flux2) = %r",
                        k, model.permeate_composition[k].p, yk)
                wk = model.feed_compositions[k]
                if 0.0 < yk < 1.0 and 0.0 < wk.p < 1.0:
                    sfk = sep_factor(yk, wk.p)
                    require(relerr(model.get_separation_factor[k], sfk) <= 1e-9, "step %d separation factor %r != %r", k,
                            float(model.get_separation_factor[k]), sfk)
            other = _solver(pv, case, build.composition(s.x, s.basis), case["T"], model="UNIQUAC" if case["model"] == "NRTL" else "NRTL")
    except EvaluationCap:
        raise Discard("evaluation cap reached (termination is C10's subject)")
    differs = (not is_raised(other)) and max(relerr(other[0], ref[0]), relerr(other[1], ref[1])) > 1e-6
    return {"nontrivial": differs and case["steps"] >= 2, "classes": classes + ["models-differ" if differs else "models-agree"]}


def _nonideal_strategy():
    from .. import procs

    @st.composite
    def s(draw):
        c = draw(procs.process_case(kinds=("nonideal-iso", "nonideal-noniso"), removal=(1e-4, 0.1), max_steps=5))
        # both parameter sets, so that a silent fall-back to the default model is visible
        if "builtin" not in c["mixture"] and (c["mixture"].get("uq") is None or c["mixture"].get("nrtl") is None):
            c["mixture"] = draw(gen.mixture(("NRTL", "UNIQUAC"), 0.5))
        c["init_units"] = draw(st.sampled_from(gen.UNITS))
        return c

    return s()


PARTS = [
    Part("ideal-entry-points", lambda tier: strategy(tier), check, {"quick": 3000, "thorough": 100000},
         floor={"quick": 300, "thorough": 10000}, max_discard=0.7),
    Part("non-ideal-steps", lambda tier: _nonideal_strategy(), check_nonideal, {"quick": 200, "thorough": 6000},
         floor={"quick": 20, "thorough": 500}, shrink={"quick": False, "thorough": True}, max_discard=0.7),
]
