"""C01 - process models conserve total and per-component mass on a regular time grid."""
import math

from .. import procs
from ..core import Discard, Part, is_raised, relerr, require
from ..observe import EvaluationCap, Trace

ID = "C01"
RULE = ("cases: process kind (ideal/non-ideal x isothermal/non-isothermal) x {NRTL, UNIQUAC} x built-in/synthetic mixture x permeate mode "
        "(vacuum / temperature 120 K..T_feed / pressure 0..100 kPa) x membrane (1..3 experiments per component) x area, feed amount 1e-3..1e3 x "
        "1..8 steps x step length chosen so that step 0 removes 1e-6..0.3 of the feed x molar/mass initial composition x "
        "self-cooling or polynomial/exponential/logarithmic programme; non-ideal kinds on generated composition-dependent curve sets "
        "(1..3 temperatures, orders n<=2, m<=1, with/without initial permeances and zero points). "
        "non-trivial = the model returned, >= 2 steps and both component removals per step > 1e-9 of the feed mass; "
        "distinct = SHA-1 of the case JSON")
ASSUMPTIONS = ["identities are recomputed from the REPORTED series only (fluxes, masses, fractions, time); tolerance 1e-12 of max(mass, removed mass)",
               "a model that raises (feed exhausted, fraction outside [0,1], non-convergence) is a counted discard"]
TOL = 1e-12


def check_model(case, s, dt, model, classes):
    n = case["steps"]
    for name in procs.SERIES:
        series = getattr(model, name)
        require(len(series) == n, "series %s has %d entries for %d requested steps", name, len(series), n)
    area, amount = case["area"], case["amount"]
    require(float(model.feed_mass[0]) == amount, "feed_mass[0] = %r, stated amount %r", float(model.feed_mass[0]), amount)
    require(float(model.feed_temperature[0]) == case["T"], "feed_temperature[0] = %r, stated %r", float(model.feed_temperature[0]), case["T"])
    c0 = model.feed_compositions[0]
    require(c0.type == "weight", "feed_compositions[0] has type %r", c0.type)
    require(abs(c0.p - s.w0) <= 8e-16 * max(s.m1 / s.m2, s.m2 / s.m1, 1.0), "feed_compositions[0] = %r, mass fraction of the stated composition is %r", c0.p, s.w0)
    worst = 0.0
    moved = True
    for k in range(n):
        require(relerr(model.time[k], k * dt) <= TOL, "time[%d] = %r, expected %d x %r = %r", k, float(model.time[k]), k, dt, k * dt)
        require(model.feed_compositions[k].type == "weight", "feed_compositions[%d] has type %r", k, model.feed_compositions[k].type)
        if k + 1 < n:
            j1, j2 = float(model.partial_fluxes[k][0]), float(model.partial_fluxes[k][1])
            m, mn = float(model.feed_mass[k]), float(model.feed_mass[k + 1])
            w, wn = model.feed_compositions[k].p, model.feed_compositions[k + 1].p
            d1, d2 = j1 * area * dt, j2 * area * dt
            scale = max(abs(m), abs(d1) + abs(d2))
            r_tot = abs(mn - (m - (d1 + d2))) / scale
            r_cmp = abs(mn * wn - (m * w - d1)) / scale
            require(r_tot <= TOL, "step %d: feed mass %r -> %r but (flux1+flux2) x area x step = %r (residual %.3g of the mass)",
                    k, m, mn, d1 + d2, r_tot)
            require(r_cmp <= TOL, "step %d: first-component mass %r -> %r but flux1 x area x step = %r (residual %.3g)",
                    k, m * w, mn * wn, d1, r_cmp)
            worst = max(worst, r_tot, r_cmp)
            if not (abs(d1) > 1e-9 * m and abs(d2) > 1e-9 * m):
                moved = False
    return {"nontrivial": n >= 2 and moved, "classes": classes + ["returned"], "target": {"residual": worst}}


def check(case):
    s = procs.setup(case)
    classes = procs.classes_of(case)
    try:
        with Trace(s.pv, cap=60000, keep=False):
            dt = procs.step_length(case, s)
            if case["steps"] >= 2 and int(case["removal"] * 1e6) % 3 == 0:
                # a call with the same number of steps and step length that exhausts the feed and raises mid-loop comes first:
                # whatever it left behind must not leak into the next call (series lengths, time grid)
                procs.run(case, s, dt, cond_spec=procs.conditions_spec(case, s, dt, amount=case["amount"] * case["removal"] * 0.5))
                classes.append("after-failed-call")
            model = procs.run(case, s, dt)
    except EvaluationCap:
        raise Discard("evaluation cap reached (termination is C10's subject)")
    if is_raised(model):
        raise Discard("model raised %s" % model.type)
    return check_model(case, s, dt, model, classes)


from hypothesis import strategies as st


@st.composite
def many_steps(draw):
    """Hundreds of steps (the quantifier says 'step count >= 1'): fine grids, ideal kinds."""
    c = draw(procs.process_case(kinds=("ideal-iso", "ideal-noniso"), removal=(1e-7, 1e-4), max_steps=8))
    c["steps"] = draw(st.sampled_from([200, 256, 257, 258, 300, 400]))
    return c


PARTS = [
    Part("ideal", lambda tier: procs.process_case(kinds=("ideal-iso", "ideal-noniso")), check, {"quick": 4000, "thorough": 100000},
         floor={"quick": 300, "thorough": 8000}),
    Part("many-steps", lambda tier: many_steps(), check, {"quick": 96, "thorough": 2000}, floor={"quick": 10, "thorough": 200},
         shrink={"quick": False, "thorough": True}),
    Part("non-ideal", lambda tier: procs.process_case(kinds=("nonideal-iso", "nonideal-noniso"), max_steps=6), check,
         {"quick": 320, "thorough": 6000}, floor={"quick": 30, "thorough": 500}, shrink={"quick": False, "thorough": True}),
]
