"""C09 - flux->permeance inversion of a diffusion curve undoes the flux calculation."""
import math

from hypothesis import strategies as st

from .. import build, findings, gen
from ..core import Discard, Part, Violation, call, is_raised, relerr, require
from ..observe import EvaluationCap
from ..refmodels import convert_units, to_molar
from ..solver import make_pv, solve

ID = "C09"
RULE = ("cases: mixtures (8 built-in + synthetic, NRTL - a DiffusionCurve has no model field and always inverts with NRTL) x 3 permeate modes "
        "x permeances 1e-6..1 supplied in kg/(m2 h kPa), SI or GPU x 1..4 feed compositions in (0,1), molar or mass x T 273..400 K x "
        "precision 1e-8..1e-5; curves read once before use (every second case), permeances tabulated in any unit (from_frame), one shared "
        "Permeance object for both components. non-trivial = permeate temperature or pressure>0 and both driving forces > 1e-3 of the feed partial pressure "
        "for every point; distinct = SHA-1 of the case JSON")
ASSUMPTIONS = ["round-trip tolerance = the exact effect of the solver's stopping tolerance, |pp_i(y*)-pp_i(y_k)|/|pf_i-pp_i(y*)| (x2) + 1e-9, "
               "with y_k the last iterate observed through the evaluation trace",
               "known finding D7 (permeate-pressure partition: solver uses mass fractions, curve mole fractions) is recognised only when the "
               "curve equals the reference inversion with mole fractions AND the inversion with mass fractions returns the permeances"]


@st.composite
def strategy(draw, tier="quick"):
    base = draw(gen.solver_case(models=("NRTL",)))
    base["precision"] = draw(gen.loguniform(1e-8, 1e-5))
    base["xs"] = draw(st.lists(gen.fraction(), min_size=1, max_size=4))
    base["units"] = draw(st.sampled_from(gen.UNITS))
    return base


def _pp(mix, case, y, partition):
    from pyvaporation.mixtures import get_partial_pressures

    mode = case["perm"]["mode"]
    if mode == "vacuum":
        return (0.0, 0.0)
    if mode == "temperature":
        pp = get_partial_pressures(case["perm"]["T"], mix, build.composition(y, "weight"))
        return (float(pp[0]), float(pp[1]))
    p = case["perm"]["p"]
    if partition == "molar":
        y = to_molar(y, mix.first_component.molecular_weight, mix.second_component.molecular_weight)
    return (p * y, p * (1 - y))


def check(case):
    from pyvaporation.mixtures import get_partial_pressures

    mix0 = build.mixture(case["mixture"])
    u = case["units"]  # membrane experiments stated in the case's unit, exactly at the feed temperature
    mspec = {"name": "M", "e1": [{"T": case["T"], "value": convert_units(case["p1"], build.KG, u, mix0.first_component.molecular_weight), "units": u, "Ea": 20000.0}],
             "e2": [{"T": case["T"], "value": convert_units(case["p2"], build.KG, u, mix0.second_component.molecular_weight), "units": u, "Ea": 30000.0}]}
    pv, mix = make_pv(case, mspec)
    comps = (mix.first_component, mix.second_component)
    mode = case["perm"]["mode"]
    perms = (case["p1"], case["p2"])
    classes = [mode, case["basis"], case["units"], "builtin" if "builtin" in case["mixture"] else "synthetic"]
    known = []
    fluxes, yks, pfs, counts = [], [], [], []
    for x in case["xs"]:
        c = dict(case, x=x)
        try:
            out, tr = solve(pv, c)
        except EvaluationCap:
            raise Discard("evaluation cap")
        if is_raised(out):
            raise Discard("solver raised %s" % out.type)
        j = (float(out[0]), float(out[1]))
        if not all(math.isfinite(v) for v in j):
            raise Discard("non-finite fluxes")
        if not tr.evals and tr.hooked:
            raise Discard("no evaluation traced")
        if not (j[0] + j[1] != 0 and 0.0 <= j[0] / (j[0] + j[1]) <= 1.0):
            raise Discard("fluxes have no valid composition")
        fluxes.append(j)
        counts.append(len(tr.evals))
        last_evals = list(tr.evals)
        # last iterate from the trace; without the hook (renamed internals) the flux composition stands in and the
        # tolerance below is widened by the requested precision
        yks.append(tr.evals[-1][0] if tr.evals else None)
        pf = get_partial_pressures(case["T"], mix, build.composition(x, case["basis"]))
        pfs.append((float(pf[0]), float(pf[1])))
        if not all(math.isfinite(v) and v > 0 for v in pfs[-1]):
            raise Discard("feed partial pressure under/overflows (activity coefficient outside the double range): inversion undefined")
    feed = [build.composition(x, case["basis"]) for x in case["xs"]]

    # (i)+(ii) curve from the solver's fluxes under the same permeate condition
    curve = call(build.DiffusionCurve, mixture=mix, membrane_name="M", feed_temperature=case["T"], feed_compositions=feed,
                 partial_fluxes=list(fluxes), permeate_temperature=case["perm"]["T"], permeate_pressure=case["perm"]["p"])
    if is_raised(curve):
        raise Discard("curve construction raised %s" % curve.type)
    require(len(curve.permeances) == len(fluxes), "curve reports %d permeance pairs for %d points", len(curve.permeances), len(fluxes))
    nontrivial = mode != "vacuum" and not (mode == "pressure" and case["perm"]["p"] == 0)
    for k, j in enumerate(fluxes):
        ystar = j[0] / (j[0] + j[1])
        pf = pfs[k]
        got = curve.permeances[k]
        for i in (0, 1):
            require(got[i].units == build.KG, "curve permeance in units %r", got[i].units)
        # reference inversions
        inv = {}
        for part in ("mass", "molar"):
            pp = _pp(mix, case, ystar, part)
            inv[part] = tuple(max(j[i] / (pf[i] - pp[i]), 0.0) if pf[i] != pp[i] else math.inf for i in (0, 1))
        # a component whose feed-side partial pressure is exactly 0 (activity coefficient underflow) or equals the permeate-side
        # pressure has no defined permeance (0/0): nothing to compare for it
        defined = [i for i in (0, 1) if pf[i] > 0 and all(math.isfinite(inv[part][i]) for part in ("mass", "molar"))]
        if not defined:
            raise Discard("zero driving force for both components")
        match = [part for part in ("molar", "mass") if all(relerr(got[i].value, inv[part][i]) <= 1e-10 for i in defined)]
        require(match, "point %d: curve permeances %r are not flux / (feed - permeate partial pressure) = %r (mole-fraction partition) / %r "
                       "(mass-fraction partition)", k, (got[0].value, got[1].value), inv["molar"], inv["mass"])
        # round trip against the permeances the fluxes were computed with
        unhooked = yks[k] is None
        if unhooked:
            yks[k] = ystar
        ppk = _pp(mix, case, yks[k], "mass")
        bad = None
        for i in defined:
            pps = _pp(mix, case, ystar, match[0])
            den = abs(pf[i] - pps[i])
            slack = 2 * abs(pps[i] - _pp(mix, case, yks[k], match[0])[i]) / den + 1e-9 if den > 0 else math.inf
            if unhooked and den > 0:
                slack += 20 * case["precision"] * max(abs(pf[i]), abs(pps[i])) / den
            if mode == "vacuum":
                slack = 1e-12
            if got[i].value == 0.0 and (perms[i] * (pf[i] - ppk[i]) <= 0 or j[i] <= 0):
                continue
            if abs(j[i]) < 1e-290:
                continue  # subnormal flux: relative accuracy is lost in the representation itself (thorough-tier false alarm)  # negative driving force: flux <= 0 is clamped by Permeance, nothing to recover
            if not relerr(got[i].value, perms[i]) <= slack:
                bad = (i, got[i].value, perms[i], slack)
        if bad is not None and unhooked and mode != "vacuum":
            classes.append("roundtrip-unobservable")  # last iterate unknown (hook absent): the solver-tolerance bound cannot be computed
        elif bad is not None:
            extra = 20 * case["precision"] if unhooked else 0.0
            d7 = (mode == "pressure" and case["perm"]["p"] > 0 and "molar" in match
                  and all(relerr(inv["mass"][i], perms[i]) <= (2 * abs(_pp(mix, case, ystar, "mass")[i] - ppk[i]) + extra * max(abs(pf[i]), abs(ppk[i]))) /
                          max(abs(pf[i] - _pp(mix, case, ystar, "mass")[i]), 1e-300) + 1e-9 for i in defined))
            if d7 and findings.is_known("D7", ID):
                known.append("D7")
            else:
                raise Violation("point %d (%s): fluxes computed with permeance_%d = %r come back from the curve as %r (allowed relative "
                                "deviation %.3g); fluxes %r, feed pressures %r" % (k, mode, bad[0] + 1, bad[2], bad[1], bad[3], j, pf))
        for i in (0, 1):
            if not abs(j[i]) > 1e-3 * perms[i] * pf[i]:
                nontrivial = False

    # (i') the same through Pervaporation.ideal_diffusion_curve with membrane permeances (= the explicit ones at this temperature),
    # for the last composition: its flux is the solver's flux at the REQUESTED precision, hence its permeances those of the curve above
    from ..observe import Trace
    from ..solver import legit_exit_flip

    k = len(feed) - 1
    with Trace(pv, cap=200000, keep=True) as tri:
        ideal = call(pv.ideal_diffusion_curve, case["T"], [feed[k]], case["perm"]["T"], case["perm"]["p"], case["precision"], "NRTL")
    if not is_raised(ideal) and tri.hooked:
        if len(tri.evals) != counts[k]:
            # membrane permeances went through a unit round trip (one rounding): the loop exit may flip, but only at a rounding tie
            require(legit_exit_flip(last_evals, tri.evals, case["precision"]),
                    "ideal_diffusion_curve at precision %r used %d driving-force evaluations, the flux calculation at that precision %d, although "
                    "the step size was not at a rounding tie with the precision", case["precision"], len(tri.evals), counts[k])
            classes.append("ideal-curve-exit-flip")
        else:
            j = fluxes[k]
            tot = abs(j[0]) + abs(j[1])
            for i in (0, 1):
                require(abs(float(ideal.partial_fluxes[0][i]) - j[i]) <= 1e-9 * abs(j[i]) + 1e-11 * tot,
                        "ideal_diffusion_curve at precision %r: flux %d is %r, the flux calculation at that precision gives %r",
                        case["precision"], i + 1, float(ideal.partial_fluxes[0][i]), j[i])
                if math.isfinite(curve.permeances[k][i].value) and curve.permeances[k][i].value > 0:
                    require(relerr(ideal.permeances[0][i].value, curve.permeances[k][i].value) <= 1e-6,
                            "ideal_diffusion_curve reports permeance %r, a curve built from the same fluxes reports %r",
                            ideal.permeances[0][i].value, curve.permeances[k][i].value)
            classes.append("ideal-curve-composed")

    # (iii)+(iv) curve from permeances (any unit) -> fluxes = P*pf -> re-inversion
    unit = case["units"]
    sup = [(build.permeance(convert_units(case["p1"], build.KG, unit, comps[0].molecular_weight), unit),
            build.permeance(convert_units(case["p2"], build.KG, unit, comps[1].molecular_weight), unit)) for _ in feed]
    c2 = call(build.DiffusionCurve, mixture=mix, membrane_name="M", feed_temperature=case["T"], feed_compositions=feed, permeances=sup)
    require(not is_raised(c2), "curve from permeances raised %r", c2)
    for k in range(len(feed)):
        for i in (0, 1):
            require(c2.permeances[k][i].units == build.KG, "curve exposes permeance in %r", c2.permeances[k][i].units)
            require(relerr(c2.permeances[k][i].value, perms[i]) <= 1e-13, "permeance supplied as %r %s is exposed as %r kg/(m2 h kPa), expected %r",
                    sup[k][i].value, unit, c2.permeances[k][i].value, perms[i])
            require(relerr(c2.partial_fluxes[k][i], perms[i] * pfs[k][i]) <= 1e-13, "curve from permeances: flux %r != permeance x feed partial pressure %r",
                    float(c2.partial_fluxes[k][i]), perms[i] * pfs[k][i])
    c3 = call(build.DiffusionCurve, mixture=mix, membrane_name="M", feed_temperature=case["T"], feed_compositions=feed,
              partial_fluxes=[tuple(f) for f in c2.partial_fluxes])
    require(not is_raised(c3), "re-inversion raised %r", c3)
    for k in range(len(feed)):
        for i in (0, 1):
            if abs(float(c2.partial_fluxes[k][i])) < 1e-290:
                continue  # subnormal flux
            require(relerr(c3.permeances[k][i].value, perms[i]) <= 1e-12, "re-inverting the fluxes of a permeance curve gives %r, not %r",
                    c3.permeances[k][i].value, perms[i])
    # both given: permeances normalised to kg
    c4 = call(build.DiffusionCurve, mixture=mix, membrane_name="M", feed_temperature=case["T"], feed_compositions=feed,
              partial_fluxes=list(fluxes), permeances=sup, permeate_temperature=case["perm"]["T"], permeate_pressure=case["perm"]["p"])
    require(not is_raised(c4), "curve with fluxes and permeances raised %r", c4)
    for k in range(len(feed)):
        for i in (0, 1):
            require(c4.permeances[k][i].units == build.KG and relerr(c4.permeances[k][i].value, perms[i]) <= 1e-13,
                    "curve given fluxes and permeances (%s) exposes %r", unit, c4.permeances[k][i])
    # ONE Permeance object (in the case's unit) supplied for both components and all points - a membrane stated as non-selective in
    # that unit: each component's kg value follows from its own molar mass
    shared = build.permeance(convert_units(case["p1"], build.KG, unit, comps[0].molecular_weight), unit)
    c6 = call(build.DiffusionCurve, mixture=mix, membrane_name="M", feed_temperature=case["T"], feed_compositions=feed,
              permeances=[(shared, shared) for _ in feed])
    require(not is_raised(c6), "curve from one shared Permeance object raised %r", c6)
    want6 = (case["p1"], convert_units(shared.value, unit, build.KG, comps[1].molecular_weight))
    for k in range(len(feed)):
        for i in (0, 1):
            require(c6.permeances[k][i].units == build.KG and relerr(c6.permeances[k][i].value, want6[i]) <= 1e-13,
                    "one Permeance object (%r %s) supplied for both components is exposed for component %d as %r, expected %r kg/(m2 h kPa)",
                    shared.value, unit, i + 1, c6.permeances[k][i], want6[i])
    require(shared.units == unit, "the supplied Permeance object was modified: %r", shared)
    # the same permeances tabulated in the case's unit (DiffusionCurve.from_frame, the CSV layout): exposed in kg, fluxes = P x pf
    if "builtin" in case["mixture"]:
        import pandas

        from pyvaporation.diffusion_curve.diffusion_curve import DC_SET_COLUMNS

        n = len(feed)
        frame = pandas.DataFrame({
            "curve_id": ["1"] * n, "membrane_name": ["M"] * n, "mixture": [build.fresh(case["mixture"]["builtin"])] * n,
            "feed_temperature": [case["T"]] * n, "permeate_temperature": [None] * n, "permeate_pressure": [None] * n,
            "composition": [c.p for c in feed], "composition_type": [build.fresh(c.type) for c in feed],
            "partial_flux_1": [None] * n, "partial_flux_2": [None] * n,
            "permeance_1": [sup[k][0].value for k in range(n)], "permeance_2": [sup[k][1].value for k in range(n)],
            "units": [build.fresh(unit)] * n, "comment": [None] * n})[DC_SET_COLUMNS]
        c5 = call(build.curve_from_frame, frame)
        require(not is_raised(c5), "curve tabulated with permeances in %s raised %r", unit, c5)
        for k in range(n):
            for i in (0, 1):
                require(c5.permeances[k][i].units == build.KG and relerr(c5.permeances[k][i].value, perms[i]) <= 1e-13,
                        "curve tabulated with permeances in %s exposes %r, expected %r kg/(m2 h kPa)", unit, c5.permeances[k][i], perms[i])
                # (the table path converts mole-fraction points to mass fractions first: one rounding of the composition)
                require(relerr(c5.partial_fluxes[k][i], perms[i] * pfs[k][i]) <= 1e-9,
                        "curve tabulated with permeances in %s: flux %r != permeance x feed partial pressure %r", unit,
                        float(c5.partial_fluxes[k][i]), perms[i] * pfs[k][i])
        classes.append("tabulated")
    return {"nontrivial": nontrivial, "classes": classes, "known": known}


def probe_d7():
    """H2O/EtOH, 333.15 K, x=0.15 (mass), permeate pressure 5 kPa, permeances (0.05835, 0.002581)."""
    case = {"mixture": {"builtin": "H2O_EtOH"}, "model": "NRTL", "T": 333.15, "x": 0.15, "basis": "weight",
            "perm": {"mode": "pressure", "T": None, "p": 5.0}, "p1": 0.05835, "p2": 0.002581, "precision": 1e-8}
    pv, mix = make_pv(case)
    out, _ = solve(pv, case)
    if is_raised(out):
        return False
    curve = build.DiffusionCurve(mixture=mix, membrane_name="M", feed_temperature=case["T"],
                                 feed_compositions=[build.composition(0.15, "weight")], partial_fluxes=[tuple(out)], permeate_pressure=5.0)
    return relerr(curve.permeances[0][0].value, case["p1"]) > 1e-4


KNOWN_PROBES = {"D7": probe_d7}

PARTS = [
    Part("inversion", lambda tier: strategy(tier), check, {"quick": 6000, "thorough": 200000},
         floor={"quick": 500, "thorough": 15000}, max_discard=0.7),
]
