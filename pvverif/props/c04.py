"""C04 - activity-coefficient models are thermodynamically consistent."""
import math

from hypothesis import strategies as st

from .. import build, findings, gen
from ..core import Discard, Part, Violation, call, is_raised, relerr, require
from ..refmodels import stencil5, to_weight, uniquac_ln_gammas

ID = "C04"
RULE = ("cases: 8 built-in mixtures or synthetic ones (NRTL g +-12000 J/mol, one or two non-randomness factors 0..0.7, with/without "
        "temperature-independent terms +-3, all-zero family; UNIQUAC alpha +-500, beta +-1e4, z 6..13, r 0.5..6, q 0.5..5, tau12=tau21 family) "
        "x model x mole fraction in (0,1) (uniform, 1e-6..1e-2 from either end, log-uniform) x T 273..400 K. "
        "non-trivial = max|ln gamma| > 1e-3 at the point (non-ideal); distinct = SHA-1 of the case JSON")
ASSUMPTIONS = ["Gibbs-Duhem residual from a 5-point stencil of the package's own ln gamma (h = min(1e-4, x/4, (1-x)/4)); asserted only "
               "where the stencil is converged (h and h/2 agree), tolerance 1e-5 of the term scale",
               "known finding D1 (UNIQUAC gamma_2 residual bracket) is recognised by an exact reproduction of the slipped formula; "
               "any other UNIQUAC deviation is still a violation"]


def strategy(tier):
    @st.composite
    def s(draw):
        mdl = draw(gen.model)
        return {"mixture": draw(gen.mixture((mdl,), 0.4)), "model": mdl, "x": draw(gen.fraction()), "T": draw(gen.feed_temperature)}

    return s()


def _uq_consts(comp):
    u = comp.uniquac_constants
    return {"r": u.r, "q": u.q_geometric, "qi": u.q_interaction}


def _uq_params(mix):
    p = mix.uniquac_params
    return {"alpha_12": p.alpha_12, "alpha_21": p.alpha_21, "beta_12": p.beta_12, "beta_21": p.beta_21, "z": p.z}


def d1_predicate(mix, x, t, lng_impl, h=None, res_impl=None, scale=None):
    """True iff the implementation's UNIQUAC result at (x, t) is exactly the published equation with the
    gamma_2 bracket slip: same (ln gamma1, ln gamma2) to 1e-9, and - when a Gibbs-Duhem residual is
    being attributed - the slipped reference reproduces that residual to 0.1% while the published
    reference satisfies Gibbs-Duhem."""
    c1, c2, par = _uq_consts(mix.first_component), _uq_consts(mix.second_component), _uq_params(mix)
    try:
        slip = uniquac_ln_gammas(x, t, par, c1, c2, slip=True)
        if not all(abs(lng_impl[i] - slip[i]) <= 1e-9 * abs(slip[i]) + 1e-14 for i in (0, 1)):
            return False
        if res_impl is None:
            pub = uniquac_ln_gammas(x, t, par, c1, c2, slip=False)
            return abs(slip[1] - pub[1]) > 1e-12 * max(1.0, abs(pub[1]))
        res_slip, _ = gd_residual(lambda u: uniquac_ln_gammas(u, t, par, c1, c2, slip=True), x, h)
        res_pub, _ = gd_residual(lambda u: uniquac_ln_gammas(u, t, par, c1, c2, slip=False), x, h)
    except (OverflowError, ValueError, ZeroDivisionError):
        return False
    noise = _noise(h, lng_impl)
    return (abs(res_impl - res_slip) <= 1e-3 * abs(res_impl) + noise
            and abs(res_pub) <= max(1e-5 * scale, 1e-2 * abs(res_impl)) + noise)


def _noise(h, lng):
    """Rounding noise of the stencil: ln gamma carries ~eps(1+|ln gamma|) absolute error, divided by h."""
    return 100 * 2.220446049250313e-16 * (1.0 + max(abs(lng[0]), abs(lng[1]))) / h


class _D1Overflow(Exception):
    pass


def d1_overflow(mix, x, t):
    """The slipped gamma_2 bracket overflows (tau12 divided by theta2'+theta1' tau21 -> 0) where the published one is finite."""
    c1, c2, par = _uq_consts(mix.first_component), _uq_consts(mix.second_component), _uq_params(mix)
    try:
        pub = uniquac_ln_gammas(x, t, par, c1, c2, slip=False)
    except (OverflowError, ValueError, ZeroDivisionError):
        return False
    if not all(abs(v) < 700 for v in pub):
        return False
    try:
        slip = uniquac_ln_gammas(x, t, par, c1, c2, slip=True)
    except (OverflowError, ValueError, ZeroDivisionError):
        return True
    return not all(abs(v) < 709 for v in slip)


def gd_residual(lng, x, h):
    d1 = stencil5(lambda u: lng(u)[0], x, h)
    d2 = stencil5(lambda u: lng(u)[1], x, h)
    return x * d1 + (1 - x) * d2, (abs(x * d1), abs((1 - x) * d2))


def check(case):
    try:
        return _check(case)
    except _D1Overflow:
        return {"nontrivial": False, "classes": ["d1-overflow"], "known": ["D1"]}


def _check(case):
    from pyvaporation.mixtures import get_partial_pressures
    from pyvaporation.mixtures.mixture import calculate_activity_coefficients

    mix = build.mixture(case["mixture"])
    x, t, mdl = case["x"], case["T"], case["model"]
    classes = [mdl, "builtin" if "builtin" in case["mixture"] else "synthetic"]
    known = []

    def gam(u):
        g = call(calculate_activity_coefficients, t, mix, build.composition(u, "molar"), mdl)
        require(not is_raised(g), "activity coefficients at x=%r T=%r raised %r", u, t, g)
        g = (float(g[0]), float(g[1]))
        if not all(math.isfinite(v) and v > 0 for v in g):
            if mdl == "UNIQUAC" and d1_overflow(mix, u, t) and findings.is_known("D1", ID):
                raise _D1Overflow()
            # |ln gamma| beyond the double range (e.g. synthetic NRTL tau*G ~ -740): not representable, not decidable here
            raise Discard("activity coefficient under/overflows the double range")
        return g

    def lng(u):
        g = gam(u)
        return math.log(g[0]), math.log(g[1])

    g0 = gam(x)
    l0 = (math.log(g0[0]), math.log(g0[1]))
    # a result kept by the caller must not change when the function is called again (no shared output buffer)
    kept = call(calculate_activity_coefficients, t, mix, build.composition(x, "molar"), mdl)
    call(calculate_activity_coefficients, t, mix, build.composition(0.5 * x + 0.25, "molar"), mdl)
    call(calculate_activity_coefficients, t + 7.0, mix, build.composition(1.0 - x, "molar"), mdl)
    require(not is_raised(kept) and float(kept[0]) == g0[0] and float(kept[1]) == g0[1],
            "activity coefficients returned for x=%r changed to %r after later calls (were %r)", x, kept, g0)

    # the same whole-kelvin temperature stated as float, Python int or numpy integer is the same temperature
    import numpy

    ti = int(round(t))
    for fn_name, fn in (("calculate_activity_coefficients", lambda tt: calculate_activity_coefficients(tt, mix, build.composition(x, "molar"), mdl)),
                        ("get_partial_pressures", lambda tt: get_partial_pressures(tt, mix, build.composition(x, "molar"), mdl))):
        ref_t = call(fn, float(ti))
        if is_raised(ref_t) or not all(math.isfinite(float(v)) for v in ref_t):
            continue
        for label, form in (("int", ti), ("numpy.int64", numpy.int64(ti))):
            got_t = call(fn, form)
            require(not is_raised(got_t) and all(abs(float(a) - float(b)) <= 1e-12 * abs(float(b)) for a, b in zip(got_t, ref_t)),
                    "%s at %r K given as %s = %r, given as float %r", fn_name, ti, label, got_t, ref_t)

    # (a) Gibbs-Duhem
    h = min(1e-4, x / 4, (1 - x) / 4)
    res, terms = gd_residual(lng, x, h)
    res2, _ = gd_residual(lng, x, h / 2)
    scale = max(terms[0], terms[1], abs(l0[0]), abs(l0[1]), 1e-6)
    noise = _noise(h / 2, l0)
    converged = abs(res - res2) <= 2e-6 * scale + noise
    gd_ok = abs(res) <= 1e-5 * scale + noise
    if converged:
        classes.append("gd-checked")
        if not gd_ok:
            if mdl == "UNIQUAC" and d1_predicate(mix, x, t, l0, h, res, scale) and findings.is_known("D1", ID):
                known.append("D1")
            else:
                raise Violation("Gibbs-Duhem violated for %s at x1=%r, T=%r: x1 dln(g1)/dx1 + x2 dln(g2)/dx1 = %.6g "
                                "(terms %.6g, %.6g; ln gamma %r)" % (mdl, x, t, res, terms[0], terms[1], l0))
    else:
        classes.append("gd-unresolved")

    # (b) pure limits
    for i, xp in ((0, 1.0 - 1e-6), (1, 1e-6)):
        li = lng(xp)[i]
        require(abs(li) <= 1e-5, "ln gamma_%d = %r at x_%d = 1-1e-6 (should vanish as the component becomes pure)", i + 1, li, i + 1)
    for i, xp in ((0, 1.0), (1, 0.0)):
        g = call(calculate_activity_coefficients, t, mix, build.composition(xp, "molar"), mdl)
        require(not is_raised(g), "activity coefficients of the pure component raised %r", g)
        require(abs(float(g[i]) - 1.0) <= 1e-4, "gamma_%d = %r for pure component %d", i + 1, float(g[i]), i + 1)

    # (c) NRTL with vanishing interaction parameters is Raoult's law
    spec = case["mixture"]
    if mdl == "NRTL" and "nrtl" in spec and spec["nrtl"] and all(spec["nrtl"][k] == 0 for k in ("g12", "g21", "a12", "a21")):
        require(g0 == (1.0, 1.0), "NRTL with zero parameters gives gamma = %r", g0)
        classes.append("zero-nrtl")
    # the same on a copy of ANY mixture with the parameters zeroed
    if mdl == "NRTL":
        import attr as _attr

        zero = _attr.evolve(mix, nrtl_params=_attr.evolve(mix.nrtl_params, g12=0.0, g21=0.0, a12=0.0, a21=0.0))
        gz = calculate_activity_coefficients(t, zero, build.composition(x, "molar"), mdl)
        require(float(gz[0]) == 1.0 and float(gz[1]) == 1.0, "NRTL with zeroed parameters gives gamma = %r", gz)

    # (d) partial pressure = x * gamma * Psat
    pp = call(get_partial_pressures, t, mix, build.composition(x, "molar"), mdl)
    require(not is_raised(pp), "get_partial_pressures raised %r", pp)
    ps = (float(mix.first_component.get_vapor_pressure(t)), float(mix.second_component.get_vapor_pressure(t)))
    for i, xi in ((0, x), (1, 1 - x)):
        if abs(xi * g0[i] * ps[i]) < 1e-290:
            continue  # subnormal product: relative accuracy is lost in the representation itself (thorough seed 6: 1.9e-314)
        require(relerr(pp[i], xi * g0[i] * ps[i]) <= 1e-13, "partial pressure %d = %r but x*gamma*Psat = %r",
                i + 1, float(pp[i]), xi * g0[i] * ps[i])
    # (e) mole- vs mass-fraction input
    m1, m2 = mix.first_component.molecular_weight, mix.second_component.molecular_weight
    w = to_weight(x, m1, m2)
    # the same Composition object is first used with another mixture (conversion results must not stick to the object)
    cw = build.composition(w, "weight")
    from pyvaporation import Mixtures as _M

    other = _M.H2O_iPOH if mix is not _M.H2O_iPOH else _M.MeOH_Toluene
    call(get_partial_pressures, t, other, cw, "NRTL")
    call(cw.to_molar, other)
    pw = call(get_partial_pressures, t, mix, cw, mdl)
    require(not is_raised(pw), "get_partial_pressures(mass fraction) raised %r", pw)
    tol = 1e-9 + 1e-13 / min(x, 1 - x)
    for i in (0, 1):
        require(relerr(pw[i], pp[i]) <= tol, "partial pressure %d differs between mass-fraction (%r) and mole-fraction (%r) input",
                i + 1, float(pw[i]), float(pp[i]))
    # the same NUMBER in the other basis, asked immediately afterwards (a memo keyed on the number only would answer wrongly)
    from ..refmodels import to_molar as _to_molar

    call(get_partial_pressures, t, mix, build.composition(x, "molar"), mdl)
    alias = call(get_partial_pressures, t, mix, build.composition(x, "weight"), mdl)
    xa = _to_molar(x, m1, m2)
    ga = gam(xa)
    require(not is_raised(alias), "get_partial_pressures(mass fraction %r) raised %r", x, alias)
    for i, xi in ((0, xa), (1, 1 - xa)):
        require(relerr(alias[i], xi * ga[i] * ps[i]) <= 1e-9 + 1e-13 / min(xa, 1 - xa),
                "partial pressure %d for the mass fraction %r asked right after the mole fraction %r: %r, but x*gamma*Psat at the "
                "equivalent mole fraction %r is %r", i + 1, x, x, float(alias[i]), xa, xi * ga[i] * ps[i])
    gw = calculate_activity_coefficients(t, mix, build.composition(w, "weight"), mdl)
    for i in (0, 1):
        require(relerr(gw[i], g0[i]) <= tol, "gamma_%d differs between mass- and mole-fraction input: %r vs %r", i + 1, float(gw[i]), g0[i])

    return {"nontrivial": max(abs(l0[0]), abs(l0[1])) > 1e-3, "classes": classes, "known": known,
            "target": {"gd_residual": abs(res) / scale if converged and not known else None}}


def probe_d1():
    """H2O/EtOH, UNIQUAC, x1 = 0.3, 330 K: Gibbs-Duhem residual of the built-in model."""
    from pyvaporation import Mixtures
    from pyvaporation.mixtures.mixture import calculate_activity_coefficients

    mix = Mixtures.H2O_EtOH

    def lng(u):
        g = calculate_activity_coefficients(330.0, mix, build.composition(u, "molar"), "UNIQUAC")
        return math.log(float(g[0])), math.log(float(g[1]))

    res, terms = gd_residual(lng, 0.3, 1e-4)
    return abs(res) > 1e-5 * max(terms[0], terms[1], 1e-6)


KNOWN_PROBES = {"D1": probe_d1}

PARTS = [
    Part("consistency", strategy, check, {"quick": 16000, "thorough": 400000}, floor={"quick": 3000, "thorough": 50000}),
]
