"""C11 - process models scale correctly with size and with the area/time trade-off."""
import math

from hypothesis import strategies as st

from .. import gen, procs
from ..core import Discard, Part, call, is_raised, relerr, require
from ..observe import EvaluationCap, Trace

ID = "C11"
RULE = ("cases: 4 process kinds x models x mixtures x permeate modes x conditions (step 0 removes 1e-5..0.1 of the feed, 1..6 steps) x "
        "scale factor s (2^j, j=-10..10, or log-uniform 1e-3..1e3) and trade-off factor k likewise; twins: (a) area and feed amount x s, "
        "(b) area x k with step length / k (no programme), (c) area, amount, step length changed one at a time for step 0. "
        "non-trivial = model returned, >= 3 steps, and in self-cooling mode the temperature moved by > 1e-6 relative; distinct = SHA-1 of the case JSON")
ASSUMPTIONS = ["powers of two: relative tolerance 1e-13 (IEEE scaling is exact); general factors: 1e-7 (rounding of the inputs is amplified step after step by an ill-conditioned solver; measured 6e-9 after 5 steps), asserted only when both runs used the same "
               "number of driving-force evaluations in every step (otherwise the loop exit flipped on a last-bit difference and results "
               "legitimately differ by O(precision))"]


def factor():
    return st.one_of(st.integers(-10, 10).map(lambda j: 2.0**j), gen.loguniform(1e-3, 1e3))


@st.composite
def strategy(draw, kinds):
    c = draw(procs.process_case(kinds=kinds, removal=(1e-5, 0.1), max_steps=6))
    c["s"] = draw(factor())
    c["k"] = draw(factor())
    return c


def _is_pow2(x):
    return math.frexp(x)[0] == 0.5


def _traced_run(case, s, dt, cond, steps=None):
    with Trace(s.pv, cap=60000, keep=False) as tr:
        m = procs.run(case, s, dt, cond_spec=cond, steps=steps)
    return m, list(tr.per_call)


def compare(a, b, tol, mass_f, time_f, what, steps=None, vac=None):
    """vac = un-cancelled flux scale of step 0 (permeance x feed partial pressure, i.e. the vacuum flux)."""
    n = steps or len(a.time)
    exact = tol < 1e-12  # power-of-two factor: exact scaling, every quantity compared on its own scale
    tot0 = abs(float(a.partial_fluxes[0][0])) + abs(float(a.partial_fluxes[0][1]))
    for k in range(n):
        tot = abs(float(a.partial_fluxes[k][0])) + abs(float(a.partial_fluxes[k][1]))
        if not exact and (tot < tot0 / 300.0 or (vac is not None and tot < vac / 300.0)):
            # general factor + driving force decayed below 0.3% of its initial value, or below 0.3% of the pressures themselves (a
            # permeate within mK of equilibrium with the feed - thorough seed 6: 6e-5 K, cancellation 1e7): rounding of the scaled
            # inputs is amplified beyond any fixed tolerance; powers of two stay exact and are still compared
            break
        for i in (0, 1):
            fa, fb = float(a.partial_fluxes[k][i]), float(b.partial_fluxes[k][i])
            # general factors: inputs differ by rounding, which the (possibly ill-conditioned) solver amplifies step after step;
            # the minor flux is compared on the scale of the total flux (thorough-tier false alarm at 6e-9 on a back-permeating flux)
            require(abs(fa - fb) <= tol * (max(abs(fa), abs(fb)) if exact else tot * 10), "%s: step %d flux %d %r vs %r", what, k, i + 1, fa, fb)
            require(relerr(a.permeances[k][i].value, b.permeances[k][i].value) <= tol, "%s: step %d permeance %d %r vs %r", what, k, i + 1,
                    a.permeances[k][i].value, b.permeances[k][i].value)
        require(abs(a.feed_compositions[k].p - b.feed_compositions[k].p) <= tol, "%s: step %d feed fraction %r vs %r", what, k,
                a.feed_compositions[k].p, b.feed_compositions[k].p)
        require(abs(a.permeate_composition[k].p - b.permeate_composition[k].p) <= tol, "%s: step %d permeate fraction %r vs %r", what, k,
                a.permeate_composition[k].p, b.permeate_composition[k].p)
        require(relerr(a.feed_temperature[k], b.feed_temperature[k]) <= tol, "%s: step %d feed temperature %r vs %r", what, k,
                float(a.feed_temperature[k]), float(b.feed_temperature[k]))
        require(relerr(mass_f * float(a.feed_mass[k]), b.feed_mass[k]) <= tol, "%s: step %d feed mass %r x %r vs %r", what, k,
                float(a.feed_mass[k]), mass_f, float(b.feed_mass[k]))
        require(relerr(mass_f * float(a.feed_evaporation_heat[k]), b.feed_evaporation_heat[k]) <= tol, "%s: step %d evaporation heat %r x %r vs %r",
                what, k, float(a.feed_evaporation_heat[k]), mass_f, float(b.feed_evaporation_heat[k]))
        ca, cb = a.permeate_condensation_heat[k], b.permeate_condensation_heat[k]
        require((ca is None) == (cb is None), "%s: condensation heat presence differs", what)
        if ca is not None:
            require(relerr(mass_f * float(ca), cb) <= 10 * tol, "%s: step %d condensation heat %r x %r vs %r", what, k, float(ca), mass_f, float(cb))
        require(relerr(time_f * float(a.time[k]), b.time[k]) <= 1e-12, "%s: time[%d] %r x %r vs %r", what, k, float(a.time[k]), time_f, float(b.time[k]))


def check(case):
    s = procs.setup(case)
    classes = procs.classes_of(case)
    try:
        with Trace(s.pv, cap=60000, keep=False):
            dt = procs.step_length(case, s)
        base_cond = procs.conditions_spec(case, s, dt)
        base, ev0 = _traced_run(case, s, dt, base_cond)
        if is_raised(base):
            raise Discard("model raised %s" % base.type)
        if not all(math.isfinite(float(v)) for v in list(base.feed_mass) + list(base.feed_temperature)):
            raise Discard("non-finite states (C18)")
        sc, k = case["s"], case["k"]
        v = call(s.pv.calculate_partial_fluxes, feed_temperature=base.feed_temperature[0], composition=base.feed_compositions[0],
                 first_component_permeance=base.permeances[0][0], second_component_permeance=base.permeances[0][1], calculation_type=case["model"])
        vac = None if is_raised(v) else abs(float(v[0])) + abs(float(v[1]))
        # (a) size scaling
        cond_a = dict(base_cond, area=base_cond["area"] * sc, amount=base_cond["amount"] * sc)
        tw, ev = _traced_run(case, s, dt, cond_a)
        if is_raised(tw):
            require(not _is_pow2(sc), "the model returned, but with area and feed amount x %r (a power of two: exact scaling) it raised %r", sc, tw)
            classes.append("twin-a-raised")
        elif ev == ev0:
            compare(base, tw, 1e-13 if _is_pow2(sc) else 1e-7, sc, 1.0, "area and amount x %r" % sc, vac=vac)
            classes.append("size-pow2" if _is_pow2(sc) else "size-general")
        else:
            classes.append("exit-flip")
        # (b) area/time trade-off (no programme: a programme is a function of absolute time)
        if not case.get("program"):
            cond_b = dict(base_cond, area=base_cond["area"] * k)
            tw, ev = _traced_run(case, s, dt / k, cond_b)
            if is_raised(tw):
                require(not _is_pow2(k), "the model returned, but with area x %r and step length / %r (a power of two) it raised %r", k, k, tw)
                classes.append("twin-b-raised")
            elif ev == ev0:
                compare(base, tw, 1e-13 if _is_pow2(k) else 1e-7, 1.0, 1.0 / k, "area x %r, step length / %r" % (k, k), vac=vac)
                classes.append("tradeoff-pow2" if _is_pow2(k) else "tradeoff-general")
            else:
                classes.append("exit-flip")
        # (c) step-0 fluxes do not depend on area, amount or step length
        for what, cond_c, dt_c in (("area x %r" % sc, dict(base_cond, area=base_cond["area"] * sc), dt),
                                   ("feed amount x %r" % sc, dict(base_cond, amount=base_cond["amount"] * sc), dt),
                                   ("step length x %r" % k, base_cond, dt * k)):
            one, _ = _traced_run(case, s, dt_c, cond_c, steps=1)
            if is_raised(one):
                continue
            for i in (0, 1):
                require(relerr(one.partial_fluxes[0][i], base.partial_fluxes[0][i]) <= 1e-12,
                        "step-0 flux %d changed with %s: %r vs %r", i + 1, what, float(one.partial_fluxes[0][i]), float(base.partial_fluxes[0][i]))
    except EvaluationCap:
        raise Discard("evaluation cap reached (termination is C10's subject)")
    n = case["steps"]
    moved = True
    if case["kind"].endswith("noniso") and not case.get("program"):
        moved = relerr(base.feed_temperature[-1], base.feed_temperature[0]) > 1e-6
    return {"nontrivial": n >= 3 and moved, "classes": classes}


PARTS = [
    Part("ideal", lambda tier: strategy(("ideal-iso", "ideal-noniso")), check, {"quick": 2400, "thorough": 80000},
         floor={"quick": 200, "thorough": 6000}),
    Part("non-ideal", lambda tier: strategy(("nonideal-iso", "nonideal-noniso")), check, {"quick": 320, "thorough": 6000},
         floor={"quick": 40, "thorough": 700}, shrink={"quick": False, "thorough": True}),
]
