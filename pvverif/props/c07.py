"""C07 - results do not depend on mole- vs mass-fraction input basis."""
import math

from hypothesis import strategies as st

from .. import build, gen, procs
from ..core import Discard, Part, Violation, call, is_raised, relerr, require
from ..observe import EvaluationCap, Trace
from ..solver import legit_exit_flip
from ..refmodels import to_molar, to_weight

ID = "C07"
RULE = ("every case states one physical composition and is run twice, once with the mass fraction and once with the equivalent mole "
        "fraction (harness conversion): flux solver, permeate-composition and separation-factor helpers, ideal diffusion curve and its "
        "metrics (separation factor, PSI, selectivity, permeances), 4 process models (basis of the initial feed varied on a fixed curve set), "
        "non-ideal diffusion curve, and measurement extraction from the same curve set expressed in the two bases. "
        "Also: hand-built curves and tabulated curves (DiffusionCurve.from_frame) with all-mass, all-mole and mixed rows. "
        "non-trivial = M1/M2 outside [0.8,1.25] and every varied fraction in [0.02,0.98] (the two bases differ by > 1e-3) and the calls returned; "
        "distinct = SHA-1 of the case JSON")
ASSUMPTIONS = ["relative tolerance 1e-9 (inputs differ by the rounding of the conversion), process/solver twins compared only when both used the same "
               "number of driving-force evaluations per step; fitted coefficients are compared only through their inputs (the measurement points)"]
TOL = 1e-9


def _pair(x, basis, m1, m2):
    """(mass fraction, mole fraction) of the same physical composition."""
    if basis == "weight":
        return x, to_molar(x, m1, m2)
    return to_weight(x, m1, m2), x


def _traced(pv, fn):
    with Trace(pv, cap=60000, keep=False) as tr:
        out = call(fn)
    return out, list(tr.per_call)


def _cmp_fluxes(a, b, what, tol=TOL):
    tot = abs(float(a[0])) + abs(float(a[1]))
    for i in (0, 1):
        require(abs(float(a[i]) - float(b[i])) <= tol * max(abs(float(a[i])), abs(float(b[i]))) + 1e-12 * tot,
                "%s: flux %d is %r for the mass-fraction input and %r for the equivalent mole-fraction input", what, i + 1, float(a[i]), float(b[i]))


# ------------------------------------------------------------------------- solver, helpers, ideal curve
@st.composite
def entry_strategy(draw):
    mdl = draw(gen.model)
    mix = draw(gen.mixture(("NRTL", mdl) if mdl != "NRTL" else ("NRTL",), 0.5))
    t = draw(gen.feed_temperature)
    return {"mixture": mix, "model": mdl, "T": t, "xs": draw(st.lists(gen.mid_fraction(), min_size=1, max_size=4)),
            "perm": draw(gen.permeate(t)), "precision": draw(gen.loguniform(1e-7, 1e-3)), "membrane": draw(gen.membrane(3))}


def check_entry(case):
    mix = build.mixture(case["mixture"])
    mem = build.membrane(case["membrane"], mix)
    pv = build.Pervaporation(membrane=mem, mixture=mix)
    m1, m2 = mix.first_component.molecular_weight, mix.second_component.molecular_weight
    t, perm, prec, mdl = case["T"], case["perm"], case["precision"], case["model"]
    ws = case["xs"]
    xm = [to_molar(w, m1, m2) for w in ws]
    cw = [build.composition(w, "weight") for w in ws]
    cm = [build.composition(x, "molar") for x in xm]
    classes = [mdl, perm["mode"], "builtin" if "builtin" in case["mixture"] else "synthetic"]
    compared = 0
    try:
        kw = dict(feed_temperature=t, precision=prec, permeate_temperature=perm["T"], permeate_pressure=perm["p"], calculation_type=mdl)
        from pyvaporation.mixtures import get_partial_pressures
        from pyvaporation.mixtures.mixture import calculate_activity_coefficients

        for k in range(len(ws)):
            for fn, nm in ((calculate_activity_coefficients, "calculate_activity_coefficients"), (get_partial_pressures, "get_partial_pressures")):
                ga, gb = call(fn, t, mix, cw[k], mdl), call(fn, t, mix, cm[k], mdl)
                if is_raised(ga) or is_raised(gb):
                    continue
                for i in (0, 1):
                    if math.isfinite(float(ga[i])) and math.isfinite(float(gb[i])):
                        require(relerr(ga[i], gb[i]) <= TOL + 1e-13 / min(ws[k], 1 - ws[k], xm[k], 1 - xm[k]),
                                "%s(%s): component %d gives %r for the mass-fraction input and %r for the equivalent mole-fraction input",
                                nm, mdl, i + 1, float(ga[i]), float(gb[i]))
        ok_points = []
        for k in range(len(ws)):
            with Trace(pv, cap=60000, keep=True) as tra:
                a = call(pv.calculate_partial_fluxes, composition=cw[k], **kw)
            with Trace(pv, cap=60000, keep=True) as trb:
                b = call(pv.calculate_partial_fluxes, composition=cm[k], **kw)
            e1, e2 = list(tra.per_call), list(trb.per_call)
            if not is_raised(a) and not is_raised(b) and e1 != e2:
                require(legit_exit_flip(tra.evals, trb.evals, prec),
                        "the flux iteration used %r evaluations for the mass-fraction input and %r for the equivalent mole-fraction input "
                        "although the step size was not at a rounding tie with the precision", e1, e2)
            if is_raised(a) or is_raised(b) or e1 != e2:
                ok_points.append(False)
                continue
            ok_points.append(True)
            _cmp_fluxes(a, b, "flux solver")
            ya = call(pv.calculate_permeate_composition, t, cw[k], prec, perm["T"], perm["p"], mdl)
            yb = call(pv.calculate_permeate_composition, t, cm[k], prec, perm["T"], perm["p"], mdl)
            if not is_raised(ya) and not is_raised(yb):
                require(ya.type == "weight" and yb.type == "weight", "permeate composition types %r / %r", ya.type, yb.type)
                require(abs(ya.p - yb.p) <= TOL, "calculate_permeate_composition: %r (mass input) vs %r (mole input)", ya.p, yb.p)
                edge = min(ya.p, 1 - ya.p)
                sa = call(pv.calculate_separation_factor, t, cw[k], perm["T"], perm["p"], prec, mdl)
                sb = call(pv.calculate_separation_factor, t, cm[k], perm["T"], perm["p"], prec, mdl)
                if not is_raised(sa) and not is_raised(sb) and edge > 1e-9 and math.isfinite(float(sa)):
                    require(relerr(sa, sb) <= 10 * TOL + 1e-13 / edge,
                            "calculate_separation_factor: %r for the mass-fraction input, %r for the equivalent mole-fraction input", float(sa), float(sb))
            compared += 1
        if all(ok_points):
            da = call(pv.ideal_diffusion_curve, t, cw, perm["T"], perm["p"], prec, mdl)
            db = call(pv.ideal_diffusion_curve, t, cm, perm["T"], perm["p"], prec, mdl)
            if not is_raised(da) and not is_raised(db):
                for k in range(len(ws)):
                    _cmp_fluxes(da.partial_fluxes[k], db.partial_fluxes[k], "ideal_diffusion_curve point %d" % k)
                    ya = da.permeate_composition[k].p
                    edge = min(ya, 1 - ya)
                    for name in ("get_separation_factor", "get_psi"):
                        va, vb = float(getattr(da, name)[k]), float(getattr(db, name)[k])
                        if math.isfinite(va) and edge > 1e-9:
                            require(abs(va - vb) <= (100 * TOL + 1e-13 / edge) * max(abs(va), abs(vb), 1e-300) + (1e-9 * abs(float(da.get_separation_factor[k])) * sum(map(abs, map(float, da.partial_fluxes[k]))) if name == "get_psi" else 0.0),
                                    "curve %s at point %d: %r (mass-fraction curve) vs %r (mole-fraction curve)", name, k, va, vb)
                    if mdl == "NRTL" or perm["mode"] == "vacuum":
                        for i in (0, 1):
                            pa, pb = da.permeances[k][i].value, db.permeances[k][i].value
                            if pa > 0 and pb > 0 and abs(float(da.partial_fluxes[k][i])) > 1e-6 * sum(map(abs, map(float, da.partial_fluxes[k]))):
                                require(relerr(pa, pb) <= 1e-6, "curve permeance %d at point %d: %r vs %r", i + 1, k, pa, pb)
                classes.append("curve-compared")
        # hand-built curves in the two bases: from permeances, from fluxes, and from both
        from pyvaporation.mixtures import get_partial_pressures as _gpp

        pv_ = [(1e-2 * (1 + k), 3e-3 * (1 + 0.5 * k)) for k in range(len(ws))]
        fl_ = [tuple(pv_[k][i] * float(_gpp(t, mix, cw[k])[i]) for i in (0, 1)) for k in range(len(ws))]
        for label, kwargs in (("permeances", lambda: dict(permeances=[(build.permeance(a), build.permeance(b)) for a, b in pv_])),
                              ("fluxes", lambda: dict(partial_fluxes=list(fl_))),
                              ("fluxes+permeances", lambda: dict(partial_fluxes=list(fl_), permeances=[(build.permeance(a), build.permeance(b)) for a, b in pv_]))):
            ca = call(build.DiffusionCurve, mixture=mix, membrane_name="M", feed_temperature=t, feed_compositions=list(cw), **kwargs())
            cb = call(build.DiffusionCurve, mixture=mix, membrane_name="M", feed_temperature=t, feed_compositions=list(cm), **kwargs())
            if is_raised(ca) or is_raised(cb):
                continue
            for k in range(len(ws)):
                for name in ("get_separation_factor", "get_psi", "get_selectivity"):
                    va, vb = call(lambda: float(getattr(ca, name)[k])), call(lambda: float(getattr(cb, name)[k]))
                    if is_raised(va) or is_raised(vb):
                        require(is_raised(va) and is_raised(vb), "DiffusionCurve built from %s: %s raises for one basis only (%r / %r)", label, name, va, vb)
                        continue
                    if math.isfinite(va) and math.isfinite(vb):
                        require(abs(va - vb) <= 1e-7 * max(abs(va), abs(vb)) + 1e-9 * sum(abs(x) for x in fl_[k]) * (abs(va) if name == "get_psi" else 0.0),
                                "DiffusionCurve built from %s: %s at point %d is %r with mass-fraction points and %r with the equivalent mole-fraction points",
                                label, name, k, va, vb)
                for i in (0, 1):
                    require(relerr(ca.partial_fluxes[k][i], cb.partial_fluxes[k][i]) <= 1e-8 and relerr(ca.permeances[k][i].value, cb.permeances[k][i].value) <= 1e-8,
                            "DiffusionCurve built from %s: flux/permeance %d at point %d differs between the two bases", label, i + 1, k)
        classes.append("hand-built-curves")
        # the same measurements tabulated (DiffusionCurve.from_frame, the CSV layout): all rows as mass fractions, all rows as mole
        # fractions, and rows of both kinds in one table - built-in mixtures only (tables name their mixture)
        if "builtin" in case["mixture"]:
            _frame_twins(case, mix, t, cw, cm, fl_, pv_)
            classes.append("tabulated-curves")
    except EvaluationCap:
        raise Discard("evaluation cap reached (termination is C10's subject)")
    if compared == 0:
        raise Discard("no point could be compared (solver raised / exit flip)")
    nontrivial = not (0.8 <= m1 / m2 <= 1.25) and all(0.02 <= w <= 0.98 and 0.02 <= x <= 0.98 for w, x in zip(ws, xm))
    return {"nontrivial": nontrivial, "classes": classes}


def _frame_twins(case, mix, t, cw, cm, fl_, pv_):
    import pandas

    from pyvaporation.diffusion_curve.diffusion_curve import DC_SET_COLUMNS

    n = len(cw)
    mixed = [cm[k] if k % 2 == 0 else cw[k] for k in range(n)]
    alt = [cw[k] if k % 2 == 0 else cm[k] for k in range(n)]
    perm = case["perm"]
    for label, with_perm in (("fluxes", False), ("fluxes+permeances", True)):
        loaded = {}
        for name, comps in (("mass", cw), ("mole", cm), ("mole/mass rows", mixed), ("mass/mole rows", alt)):
            frame = pandas.DataFrame({
                "curve_id": ["1"] * n, "membrane_name": ["M"] * n, "mixture": [build.fresh(case["mixture"]["builtin"])] * n,
                "feed_temperature": [t] * n, "permeate_temperature": [perm["T"] if not with_perm else None] * n,
                "permeate_pressure": [perm["p"] if not with_perm else None] * n,
                "composition": [c.p for c in comps], "composition_type": [build.fresh(c.type) for c in comps],
                "partial_flux_1": [f[0] for f in fl_], "partial_flux_2": [f[1] for f in fl_],
                "permeance_1": [p[0] if with_perm else None for p in pv_], "permeance_2": [p[1] if with_perm else None for p in pv_],
                "units": [build.KG if with_perm else None] * n, "comment": [None] * n})[DC_SET_COLUMNS]
            loaded[name] = call(build.curve_from_frame, frame)
        ref = loaded["mass"]
        for name, cur in loaded.items():
            if is_raised(ref) or is_raised(cur):
                require(is_raised(ref) and is_raised(cur), "curve tabulated with %s (%s): loading raises for one basis only (%r / %r)", label, name, ref, cur)
                continue
            for k in range(n):
                require(cur.feed_compositions[k].type == ref.feed_compositions[k].type and
                        abs(cur.feed_compositions[k].p - ref.feed_compositions[k].p) <= TOL,
                        "curve tabulated with %s: point %d is %r when the table states %s, %r when it states mass fractions", label, k,
                        cur.feed_compositions[k], name, ref.feed_compositions[k])
                for i in (0, 1):
                    require(relerr(cur.partial_fluxes[k][i], ref.partial_fluxes[k][i]) <= 1e-8 and
                            relerr(cur.permeances[k][i].value, ref.permeances[k][i].value) <= 1e-8,
                            "curve tabulated with %s (%s): flux/permeance %d at point %d differs from the mass-fraction table", label, name, i + 1, k)


# ------------------------------------------------------------------------- process models
def compare_models(a, b, what, tol=10 * TOL):
    n = len(a.time)
    require(len(b.time) == n, "%s: different number of steps", what)
    for k in range(n):
        for c in (a.feed_compositions[k], b.feed_compositions[k]):
            require(c.type == "weight", "%s: process reports a feed composition of type %r", what, c.type)
        require(abs(a.feed_compositions[k].p - b.feed_compositions[k].p) <= tol, "%s: step %d feed mass fraction %r (mass-fraction input) vs %r (mole-fraction input)",
                what, k, a.feed_compositions[k].p, b.feed_compositions[k].p)
        _cmp_fluxes(a.partial_fluxes[k], b.partial_fluxes[k], "%s step %d" % (what, k), tol)
        for i in (0, 1):
            require(relerr(a.permeances[k][i].value, b.permeances[k][i].value) <= tol,
                    "%s: step %d permeance %d is %r for the mass-fraction initial feed and %r for the equivalent mole-fraction initial feed",
                    what, k, i + 1, a.permeances[k][i].value, b.permeances[k][i].value)
        for name in ("feed_mass", "feed_temperature", "feed_evaporation_heat"):
            require(relerr(getattr(a, name)[k], getattr(b, name)[k]) <= tol, "%s: step %d %s %r vs %r", what, k, name,
                    float(getattr(a, name)[k]), float(getattr(b, name)[k]))
        require(abs(a.permeate_composition[k].p - b.permeate_composition[k].p) <= tol, "%s: step %d permeate fraction differs", what, k)


def check_process(case):
    s_w = procs.setup(case, basis="weight")
    s_m = procs.setup(case, basis="molar")
    s_m.curves = s_w.curves  # the SAME curve set object for both twins
    classes = procs.classes_of(case)
    try:
        with Trace(s_w.pv, cap=60000, keep=False):
            dt = procs.step_length(case, s_w)
        a, e1 = _traced(s_w.pv, lambda: procs.run(case, s_w, dt))
        b, e2 = _traced(s_m.pv, lambda: procs.run(case, s_m, dt))
    except EvaluationCap:
        raise Discard("evaluation cap reached (termination is C10's subject)")
    if is_raised(a) and is_raised(b):
        raise Discard("model raised %s" % a.type)
    if e1 != e2:
        raise Discard("exit flip between twins")
    if is_raised(a) != is_raised(b):
        if procs.lookahead_borderline(b if is_raised(a) else a, case["area"], dt):
            raise Discard("one twin raised on a rounding-borderline (exhausted / run-away) look-ahead state")
        raise Violation("%s: %s with the mass-fraction initial feed but %s with the equivalent mole-fraction one"
                        % (case["kind"], "raised %r" % a if is_raised(a) else "returned", "raised %r" % b if is_raised(b) else "returned"))
    if not all(math.isfinite(float(v)) for v in list(a.feed_mass) + list(a.feed_temperature)):
        raise Discard("non-finite states (C18)")
    compare_models(a, b, case["kind"])
    nontrivial = not (0.8 <= s_w.m1 / s_w.m2 <= 1.25) and 0.02 <= s_w.x <= 0.98 and 0.02 <= s_m.x <= 0.98 and case["steps"] >= 2
    return {"nontrivial": nontrivial, "classes": classes}


# ------------------------------------------------------------------------- non-ideal curve + measurement extraction
@st.composite
def curve_strategy(draw):
    c = draw(procs.process_case(kinds=("nonideal-iso",), max_steps=5))
    c["kind"] = "nonideal-curve"
    c["direction"] = draw(st.sampled_from([-1.0, 1.0]))
    c["span"] = draw(gen.uniform(0.05, 0.9))
    return c


def check_curve(case):
    from pyvaporation import Measurements

    mix = build.mixture(case["mixture"])
    mem = build.membrane(case["membrane"], mix)
    pv = build.Pervaporation(membrane=mem, mixture=mix)
    m1, m2 = mix.first_component.molecular_weight, mix.second_component.molecular_weight
    w0, x0 = _pair(case["x"], case["basis"], m1, m2)
    classes = ["nonideal-curve", case["model"], case["perm"]["mode"], "curves=%d" % len(case["curves"]["curves"])]
    # measurement extraction from the same physical curve set in the two bases
    set_w = procs.build_curve_set(case["curves"], mix, force_basis="weight")
    set_m = procs.build_curve_set(case["curves"], mix, force_basis="molar")
    for name in ("from_diffusion_curves_first", "from_diffusion_curves_second"):
        ma, mb = getattr(Measurements, name)(set_w), getattr(Measurements, name)(set_m)
        require(len(ma) == len(mb), "%s: %d vs %d points", name, len(ma), len(mb))
        for k in range(len(ma)):
            require(abs(ma[k].x - mb[k].x) <= 1e-12 * max(m1 / m2, m2 / m1) and ma[k].t == mb[k].t and relerr(ma[k].p, mb[k].p) <= 1e-9,
                    "Measurements.%s point %d: (x,t,p) = (%r,%r,%r) from the mass-fraction curve set but (%r,%r,%r) from the same set in mole fractions",
                    name, k, ma[k].x, ma[k].t, ma[k].p, mb[k].x, mb[k].t, mb[k].p)
    # non-ideal diffusion curve: basis of the initial composition varied on the curve set as generated
    cs = procs.build_curve_set(case["curves"], mix)
    n = case["steps"]
    room = (1.0 - w0 - 0.01) if case["direction"] > 0 else (w0 - 0.01)
    delta = case["direction"] * case["span"] * room / (n + 2)
    o = case["orders"]
    init = None
    if case.get("initial"):
        s = procs.setup(case)
        init = s.initial
    kw = dict(diffusion_curve_set=cs, feed_temperature=case["T"], delta_composition=delta, number_of_steps=n,
              permeate_temperature=case["perm"]["T"], permeate_pressure=case["perm"]["p"], initial_permeances=init,
              precision=case["precision"], calculation_type=case["model"], n_first=o["n1"], n_second=o["n2"], m_first=o["m1"], m_second=o["m2"],
              include_zero=case.get("include_zero", False))
    try:
        a, e1 = _traced(pv, lambda: pv.non_ideal_diffusion_curve(initial_feed_composition=build.composition(w0, "weight"), **kw))
        b, e2 = _traced(pv, lambda: pv.non_ideal_diffusion_curve(initial_feed_composition=build.composition(x0, "molar"), **kw))
    except EvaluationCap:
        raise Discard("evaluation cap reached (termination is C10's subject)")
    if is_raised(a) and is_raised(b):
        raise Discard("non-ideal curve raised %s" % a.type)
    if e1 != e2:
        raise Discard("exit flip between twins")
    require(not is_raised(a) and not is_raised(b), "non_ideal_diffusion_curve: %r (mass input) vs %r (mole input)", a, b)
    require(len(a.partial_fluxes) == len(b.partial_fluxes), "non-ideal curve lengths differ")
    for k in range(len(a.partial_fluxes)):
        require(abs(a.feed_compositions[k].to_weight(mix).p - b.feed_compositions[k].to_weight(mix).p) <= 10 * TOL, "non-ideal curve point %d composition differs", k)
        for i in (0, 1):
            require(relerr(a.permeances[k][i].value, b.permeances[k][i].value) <= 10 * TOL,
                    "non_ideal_diffusion_curve point %d: permeance %d is %r for the mass-fraction initial composition and %r for the equivalent mole fraction",
                    k, i + 1, a.permeances[k][i].value, b.permeances[k][i].value)
        _cmp_fluxes(a.partial_fluxes[k], b.partial_fluxes[k], "non_ideal_diffusion_curve point %d" % k, 10 * TOL)
    nontrivial = not (0.8 <= m1 / m2 <= 1.25) and 0.02 <= w0 <= 0.98 and 0.02 <= x0 <= 0.98
    return {"nontrivial": nontrivial, "classes": classes}


PARTS = [
    Part("solver-helpers-curve", lambda tier: entry_strategy(), check_entry, {"quick": 3000, "thorough": 100000}, floor={"quick": 400, "thorough": 10000}),
    Part("ideal-process", lambda tier: procs.process_case(kinds=("ideal-iso", "ideal-noniso"), removal=(1e-5, 0.1), max_steps=6), check_process,
         {"quick": 1600, "thorough": 60000}, floor={"quick": 170, "thorough": 5000}),
    Part("non-ideal-process", lambda tier: procs.process_case(kinds=("nonideal-iso", "nonideal-noniso"), removal=(1e-5, 0.1), max_steps=5), check_process,
         {"quick": 200, "thorough": 5000}, floor={"quick": 30, "thorough": 700}, shrink={"quick": False, "thorough": True}),
    Part("non-ideal-curve-measurements", lambda tier: curve_strategy(), check_curve, {"quick": 200, "thorough": 5000},
         floor={"quick": 30, "thorough": 700}, shrink={"quick": False, "thorough": True}),
]
