"""C17 - saved curves, functions, conditions and process models load back unchanged."""
import hashlib
import math
import os
import shutil
import tempfile
from pathlib import Path

from hypothesis import strategies as st

from .. import build, gen, procs
from ..core import Discard, Part, Violation, call, history_machine, is_raised, relerr, replay_history, require
from ..observe import EvaluationCap, Trace
from ..refmodels import convert_units, to_weight

ID = "C17"
RULE = ("curve part: DiffusionCurve on a built-in mixture (loading looks mixtures up by name), 1..6 points, molar or mass compositions, built from "
        "fluxes (any permeate mode) or permeances (kg/SI/GPU), values 1e-9..1e3; function part: arbitrary (n,m,alpha,a,b) binary and JSON, "
        "Conditions JSON with None-valued optional fields; process part: process models from the generators (all 4 kinds, all modes) saved and "
        "re-loaded in both storage modes; history part (stateful): 2..6 operations {save model i safe/unsafe, forced directory-name collision, "
        "load-and-compare} under ONE membrane directory with directly constructed ProcessModels (values 1e-9..1e3, permeances in any unit, "
        "None condensation heat), after every operation every earlier process_* directory must be byte-identical (SHA-256). "
        "Also: files saved over an earlier file of the same name and loaded again; one file holding two curves (vacuum curve first or last). "
        "non-trivial = >= 2 points/steps with a non-None permeate condition, or a history with >= 2 successful saves; distinct = SHA-1 of the case JSON")
ASSUMPTIONS = ["numeric fields compared to 1e-9 relative as the property states (pandas' float parser is not round-trip exact)",
               "None <-> NaN/None for optional fields; `comments` strings are not compared", "a save that raises (name collision) is acceptable; writing into an existing directory is not"]
TOL = 1e-9


def _tmp():
    return tempfile.mkdtemp(prefix="pvverif-c17-")


def _same(a, b, what):
    a_none = a is None or (isinstance(a, float) and math.isnan(a))
    try:
        b_none = b is None or math.isnan(float(b))
    except (TypeError, ValueError):
        b_none = False
    if a_none or b_none:
        require(a_none and b_none, "%s: %r was saved, %r loaded", what, a, b)
        return
    require(relerr(a, b) <= TOL, "%s: %r was saved, %r loaded", what, float(a), float(b))


def _value(lo=1e-9, hi=1e3):
    return gen.loguniform(lo, hi)


# ------------------------------------------------------------------------------------------- curves
@st.composite
def curve_strategy(draw):
    n = draw(st.integers(1, 6))
    t = draw(gen.feed_temperature)
    src = draw(st.sampled_from(["fluxes", "permeances", "both"]))
    return {"mixture": draw(st.sampled_from(gen.BUILTIN_MIXTURES)), "T": t, "basis": draw(gen.basis),
            "xs": [draw(gen.fraction()) for _ in range(n)], "from": src,
            "vals": [[draw(_value()), draw(_value())] for _ in range(n)], "units": draw(st.sampled_from(gen.UNITS)),
            "perm": draw(gen.permeate(t)) if src != "permeances" else {"mode": "vacuum", "T": None, "p": None},
            "comment": draw(st.sampled_from([None, "c", "a, b"]))}


def check_curve(case):
    from pyvaporation import DiffusionCurveSet, Mixtures

    mix = getattr(Mixtures, case["mixture"])
    comps = [build.composition(x, case["basis"]) for x in case["xs"]]
    kw = dict(mixture=mix, membrane_name="MEM", feed_temperature=case["T"], feed_compositions=comps, comments=case["comment"],
              permeate_temperature=case["perm"]["T"], permeate_pressure=case["perm"]["p"])
    if case["from"] in ("fluxes", "both"):
        kw["partial_fluxes"] = [tuple(v) for v in case["vals"]]
    if case["from"] in ("permeances", "both"):
        kw["permeances"] = [(build.permeance(v[0] * 1e-3, case["units"]), build.permeance(v[1] * 1e-3, case["units"])) for v in case["vals"]]
    curve = call(build.DiffusionCurve, **kw)
    if is_raised(curve):
        raise Discard("curve construction raised %s" % curve.type)
    if not all(math.isfinite(p[i].value) for p in curve.permeances for i in (0, 1)):
        raise Discard("non-finite permeances (zero driving force)")
    d = _tmp()
    try:
        path = Path(d) / "curve.csv"
        out = call(curve.save, path)
        require(not is_raised(out), "DiffusionCurve.save raised %r", out)
        loaded = call(DiffusionCurveSet.load, path)
        require(not is_raised(loaded), "DiffusionCurveSet.load of a saved curve raised %r", loaded)
        require(len(loaded.diffusion_curves) == 1, "one curve saved, %d loaded", len(loaded.diffusion_curves))
        lc = loaded.diffusion_curves[0]
        require(lc.mixture is mix or lc.mixture.name == mix.name, "mixture %r saved, %r loaded", mix.name, lc.mixture.name)
        require(lc.membrane_name == "MEM", "membrane name %r loaded", lc.membrane_name)
        _same(curve.feed_temperature, lc.feed_temperature, "feed temperature")
        _same(curve.permeate_temperature, lc.permeate_temperature, "permeate temperature")
        _same(curve.permeate_pressure, lc.permeate_pressure, "permeate pressure")
        require(len(lc.feed_compositions) == len(comps) == len(lc.partial_fluxes) == len(lc.permeances), "series lengths differ after loading")
        m1, m2 = mix.first_component.molecular_weight, mix.second_component.molecular_weight
        for k, c in enumerate(comps):
            w = c.p if c.type == "weight" else to_weight(c.p, m1, m2)
            lk = lc.feed_compositions[k]
            require(lk.type == "weight", "curve composition re-loaded with type %r", lk.type)
            require(abs(lk.p - w) <= TOL, "composition %d: mass fraction %r saved, %r loaded", k, w, lk.p)
            for i in (0, 1):
                _same(curve.partial_fluxes[k][i], lc.partial_fluxes[k][i], "flux %d at point %d" % (i + 1, k))
                require(lc.permeances[k][i].units == build.KG, "permeance re-loaded in units %r", lc.permeances[k][i].units)
                _same(curve.permeances[k][i].value, lc.permeances[k][i].value, "permeance %d at point %d (kg/(m2 h kPa))" % (i + 1, k))
        # a file with TWO curves (rows of the saved curve and of a vacuum curve of the same points, distinct curve_id, either order):
        # each curve of the loaded set is the curve that was saved
        if "partial_fluxes" in kw:
            import pandas

            kw2 = dict(kw, permeate_temperature=None, permeate_pressure=None, comments="second")
            kw2.pop("permeances", None)
            kw2["feed_compositions"] = [build.composition(x, case["basis"]) for x in case["xs"]]
            second = call(build.DiffusionCurve, **kw2)
            if not is_raised(second) and all(math.isfinite(p[i].value) for p in second.permeances for i in (0, 1)):
                p2 = Path(d) / "second.csv"
                require(not is_raised(call(second.save, p2)), "DiffusionCurve.save of a vacuum curve raised")
                f1, f2 = pandas.read_csv(path), pandas.read_csv(p2)
                vacuum_last = len(case["xs"]) % 2 == 1
                (f1 if vacuum_last else f2)["curve_id"] = 1
                (f2 if vacuum_last else f1)["curve_id"] = 2
                both = Path(d) / "both.csv"
                pandas.concat([f1, f2] if vacuum_last else [f2, f1]).to_csv(both, index=False)
                lset = call(DiffusionCurveSet.load, both)
                require(not is_raised(lset) and len(lset.diffusion_curves) == 2, "a file with two curves loads as %r", lset)
                pairs = ((curve, lset.diffusion_curves[0]), (second, lset.diffusion_curves[1])) if vacuum_last else \
                        ((second, lset.diffusion_curves[0]), (curve, lset.diffusion_curves[1]))
                for orig, got in pairs:
                    what = "two-curve file, %s curve" % ("vacuum" if orig is second else case["perm"]["mode"])
                    _same(orig.permeate_temperature, got.permeate_temperature, what + ": permeate temperature")
                    _same(orig.permeate_pressure, got.permeate_pressure, what + ": permeate pressure")
                    require(len(got.permeances) == len(orig.permeances), "%s: %d points saved, %d loaded", what, len(orig.permeances), len(got.permeances))
                    for k in range(len(orig.permeances)):
                        for i in (0, 1):
                            _same(orig.partial_fluxes[k][i], got.partial_fluxes[k][i], "%s: flux %d at point %d" % (what, i + 1, k))
                            _same(orig.permeances[k][i].value, got.permeances[k][i].value, "%s: permeance %d at point %d" % (what, i + 1, k))
    finally:
        shutil.rmtree(d, ignore_errors=True)
    return {"nontrivial": len(comps) >= 2 and case["perm"]["mode"] != "vacuum",
            "classes": [case["from"], case["basis"], case["perm"]["mode"], case["units"] if case["from"] != "fluxes" else "-"]}


# ------------------------------------------------------------------------------------------- functions and conditions
@st.composite
def fn_strategy(draw):
    n, m = draw(st.integers(0, 3)), draw(st.integers(0, 3))
    t = draw(gen.feed_temperature)
    # the class does not tie len(a) to n: the library's own default fit is n=0, m=0, a=[0], b=[0]
    extra = draw(st.integers(0, 1))
    return {"n": n, "m": m, "alpha": draw(gen.signed_log(1e-9, 1e3)), "a": [draw(gen.signed_log(1e-9, 1e3)) for _ in range(n + extra)],
            "b": [draw(gen.signed_log(1e-9, 1e4)) for _ in range(m + 1)], "numpy": draw(st.booleans()),
            "cond": {"area": draw(_value()), "T": t, "amount": draw(_value()), "x": draw(gen.fraction()), "basis": draw(gen.basis),
                     "Tp": draw(st.one_of(st.none(), gen.uniform(120.0, t))), "pp": draw(st.one_of(st.none(), st.just(0.0), _value(1e-9, 100.0)))}}


def _fn_obj(case):
    from pyvaporation import PervaporationFunction

    if case["numpy"] and len(case["a"]) == case["n"]:
        import numpy

        return PervaporationFunction.from_array(numpy.array([case["alpha"]] + case["a"] + case["b"]), n=case["n"], m=case["m"])
    return PervaporationFunction(n=case["n"], m=case["m"], alpha=case["alpha"], a=list(case["a"]), b=list(case["b"]))


def _cmp_fn(f, g, what):
    require((f.n, f.m) == (g.n, g.m), "%s: orders (%r,%r) saved, (%r,%r) loaded", what, f.n, f.m, g.n, g.m)
    _same(f.alpha, g.alpha, what + " alpha")
    for name in ("a", "b"):
        va, vb = list(getattr(f, name)), list(getattr(g, name))
        require(len(va) == len(vb), "%s: %d coefficients %s saved, %d loaded", what, len(va), name, len(vb))
        for k, (x, y) in enumerate(zip(va, vb)):
            _same(x, y, "%s %s[%d]" % (what, name, k))


def _cmp_cond(c, l, what, with_program=False):
    for name in ("membrane_area", "initial_feed_temperature", "initial_feed_amount", "permeate_temperature", "permeate_pressure"):
        _same(getattr(c, name), getattr(l, name), "%s %s" % (what, name))
    require(l.initial_feed_composition.type == c.initial_feed_composition.type, "%s: composition type %r saved, %r loaded", what,
            c.initial_feed_composition.type, l.initial_feed_composition.type)
    _same(c.initial_feed_composition.p, l.initial_feed_composition.p, what + " initial fraction")


def check_fn(case):
    from pyvaporation import Conditions, PervaporationFunction

    f = _fn_obj(case)
    cond = build.conditions(case["cond"])
    d = _tmp()
    try:
        p = Path(d)
        out = call(f.save, p / "f.pv")
        require(not is_raised(out), "PervaporationFunction.save raised %r", out)
        g = call(PervaporationFunction.load, p / "f.pv")
        require(not is_raised(g), "PervaporationFunction.load raised %r", g)
        _cmp_fn(f, g, "binary function")
        out = call(f.safe_save, p / "f.json")
        require(not is_raised(out), "PervaporationFunction.safe_save raised %r", out)
        g = call(PervaporationFunction.safe_load, p / "f.json")
        require(not is_raised(g), "PervaporationFunction.safe_load raised %r", g)
        _cmp_fn(f, g, "JSON function")
        out = call(cond.safe_save, p / "c.json")
        require(not is_raised(out), "Conditions.safe_save raised %r", out)
        l = call(Conditions.safe_load, p / "c.json")
        require(not is_raised(l), "Conditions.safe_load raised %r", l)
        _cmp_cond(cond, l, "conditions")
        # the same file names written again with other content (a re-fit saved over the old one) and loaded again
        f2 = PervaporationFunction(n=f.n, m=f.m, alpha=f.alpha * 1.5 + 0.25, a=[v * 0.5 - 1.0 for v in f.a], b=[v * 2.0 + 1.0 for v in f.b])
        spec2 = dict(case["cond"], area=case["cond"]["area"] * 3.0, amount=case["cond"]["amount"] * 0.5)
        cond2 = build.conditions(spec2)
        for what, saver, loader, name, cmp_, obj in (
                ("binary function", f2.save, PervaporationFunction.load, "f.pv", _cmp_fn, f2),
                ("JSON function", f2.safe_save, PervaporationFunction.safe_load, "f.json", _cmp_fn, f2),
                ("conditions", cond2.safe_save, Conditions.safe_load, "c.json", _cmp_cond, cond2)):
            out = call(saver, p / name)
            require(not is_raised(out), "saving a %s over an existing file raised %r", what, out)
            g = call(loader, p / name)
            require(not is_raised(g), "loading a %s saved over an existing file raised %r", what, g)
            cmp_(obj, g, what + " saved over an earlier file of the same name (already loaded once)")
    finally:
        shutil.rmtree(d, ignore_errors=True)
    return {"nontrivial": True, "classes": ["n=%d,m=%d" % (case["n"], case["m"])]}


# ------------------------------------------------------------------------------------------- process models
def compare_process(model, loaded, mix, what):
    n = len(model.time)
    for name in ("time", "feed_mass", "feed_temperature", "feed_evaporation_heat", "permeate_condensation_heat", "partial_fluxes",
                 "feed_compositions", "permeate_composition", "permeances"):
        require(len(getattr(loaded, name)) == n, "%s: series %s has %d entries after loading, %d saved", what, name, len(getattr(loaded, name)), n)
    require(loaded.mixture is mix or loaded.mixture.name == mix.name, "%s: mixture %r saved, %r loaded", what, mix.name, loaded.mixture.name)
    m1, m2 = mix.first_component.molecular_weight, mix.second_component.molecular_weight
    for k in range(n):
        for name in ("time", "feed_mass", "feed_temperature", "feed_evaporation_heat", "permeate_condensation_heat"):
            a, b = getattr(model, name)[k], getattr(loaded, name)
            b = b.iloc[k] if hasattr(b, "iloc") else b[k]
            _same(a, b, "%s %s[%d]" % (what, name, k))
        for name in ("feed_compositions", "permeate_composition"):
            a, b = getattr(model, name)[k], getattr(loaded, name)[k]
            wa = a.p if a.type == "weight" else to_weight(a.p, m1, m2)
            wb = b.p if b.type == "weight" else to_weight(b.p, m1, m2)
            require(abs(wa - wb) <= TOL, "%s %s[%d]: mass fraction %r saved, %r loaded", what, name, k, wa, wb)
        for i in (0, 1):
            _same(model.partial_fluxes[k][i], loaded.partial_fluxes[k][i], "%s flux %d at step %d" % (what, i + 1, k))
            pa, pb = model.permeances[k][i], loaded.permeances[k][i]
            mw = (m1, m2)[i]
            _same(convert_units(pa.value, pa.units, build.KG, mw), convert_units(pb.value, pb.units, build.KG, mw),
                  "%s permeance %d at step %d (compared in kg/(m2 h kPa))" % (what, i + 1, k))
    for name in ("permeate_temperature", "permeate_pressure"):
        a, b = getattr(model, name), getattr(loaded, name)
        a0 = a[0] if isinstance(a, (list, tuple)) else a
        b0 = (b[0] if len(b) else None) if isinstance(b, (list, tuple)) else b
        _same(a0, b0, "%s %s" % (what, name))


def save_and_load(model, mix, root, safe, what):
    """Saves under root/results; returns the new directory or None when the save raised a name collision."""
    from pyvaporation import ProcessModel

    before = set(os.listdir(os.path.join(root, "results"))) if os.path.isdir(os.path.join(root, "results")) else set()
    fits_before = model.permeance_fits
    # the model remembers ANOTHER membrane directory (as one built from a loaded membrane does); the save must go where it is told
    decoy = os.path.join(root, "decoy-membrane")
    os.makedirs(decoy, exist_ok=True)
    decoy_before = sorted(os.listdir(decoy))
    model.membrane_path = Path(decoy)
    out = call(model.save, root, safe)
    leaked = [d for d in os.listdir(decoy) if d not in decoy_before]
    if os.path.isdir(os.path.join(decoy, "results")):
        leaked += os.listdir(os.path.join(decoy, "results"))
    require(not [d for d in leaked if d != "results"], "%s: saving to %s wrote into the membrane directory the model remembered: %r", what, root, leaked)
    after = set(os.listdir(os.path.join(root, "results"))) if os.path.isdir(os.path.join(root, "results")) else set()
    if is_raised(out):
        require(out.type == "FileExistsError" and after == before, "%s: save raised %r (directories before %r, after %r)", what, out, sorted(before), sorted(after))
        return None
    new = sorted(after - before)
    require(len(new) == 1 and new[0].startswith("process_"), "%s: save created %r", what, new)
    pdir = os.path.join(root, "results", new[0])
    loaded = call(ProcessModel.load, pdir, safe)
    require(not is_raised(loaded), "%s: loading the saved process raised %r", what, loaded)
    compare_process(model, loaded, mix, what)
    if fits_before is not None:
        for i in (0, 1):
            _cmp_fn(fits_before[i], loaded.permeance_fits[i], "%s permeance function %d" % (what, i))
    if model.initial_conditions is not None:
        require(loaded.initial_conditions is not None, "%s: initial conditions lost", what)
        _cmp_cond(model.initial_conditions, loaded.initial_conditions, "%s initial conditions" % what)
    return pdir


def check_process(case):
    s = procs.setup(case)
    try:
        with Trace(s.pv, cap=60000, keep=False):
            dt = procs.step_length(case, s)
            model = procs.run(case, s, dt)
    except EvaluationCap:
        raise Discard("evaluation cap")
    if is_raised(model):
        raise Discard("model raised %s" % model.type)
    if not all(math.isfinite(float(v)) for v in list(model.feed_mass) + list(model.feed_temperature)):
        raise Discard("non-finite states (C18)")
    root = _tmp()
    try:
        ok = 0
        for safe in (True, False):
            if save_and_load(model, s.mix, root, safe, "%s (is_safe=%r)" % (case["kind"], safe)) is not None:
                ok += 1
    finally:
        shutil.rmtree(root, ignore_errors=True)
    return {"nontrivial": case["steps"] >= 2 and case["perm"]["mode"] != "vacuum" and ok == 2, "classes": procs.classes_of(case)}


# ------------------------------------------------------------------------------------------- histories
@st.composite
def direct_model(draw):
    n = draw(st.integers(1, 5))
    t = draw(gen.feed_temperature)
    perm = draw(gen.permeate(t))
    units = draw(st.sampled_from(gen.UNITS))
    return {"mixture": draw(st.sampled_from(gen.BUILTIN_MIXTURES)), "n": n, "T": [draw(gen.feed_temperature) for _ in range(n)], "perm": perm,
            "mass": [draw(_value()) for _ in range(n)], "w": [draw(gen.fraction()) for _ in range(n)], "y": [draw(gen.fraction()) for _ in range(n)],
            "flux": [[draw(_value()), draw(_value())] for _ in range(n)], "perm_vals": [[draw(_value(1e-9, 1.0)), draw(_value(1e-9, 1.0))] for _ in range(n)],
            "units": units, "time": [draw(_value()) for _ in range(n)], "q": [draw(_value()) for _ in range(n)],
            "qc": [draw(_value()) for _ in range(n)] if perm["mode"] == "temperature" else None, "basis": draw(gen.basis),
            "ybasis": draw(gen.basis),
            "cond": {"area": draw(_value()), "T": t, "amount": draw(_value()), "x": draw(gen.fraction()), "basis": draw(gen.basis),
                     "Tp": perm["T"], "pp": perm["p"]}}


def build_direct(spec):
    from pyvaporation import Mixtures, ProcessModel

    mix = getattr(Mixtures, spec["mixture"])
    n = spec["n"]
    return ProcessModel(
        mixture=mix, membrane_name="MEM", feed_temperature=list(spec["T"]),
        feed_compositions=[build.composition(w, spec["basis"]) for w in spec["w"]],
        permeate_composition=[build.composition(y, spec.get("ybasis", "weight")) for y in spec["y"]],
        permeate_temperature=[spec["perm"]["T"]] * n, permeate_pressure=[spec["perm"]["p"]] * n, feed_mass=list(spec["mass"]),
        partial_fluxes=[tuple(f) for f in spec["flux"]],
        permeances=[(build.permeance(p[0], spec["units"]), build.permeance(p[1], spec["units"])) for p in spec["perm_vals"]],
        time=list(spec["time"]), feed_evaporation_heat=list(spec["q"]),
        permeate_condensation_heat=list(spec["qc"]) if spec["qc"] is not None else [None] * n,
        initial_conditions=build.conditions(spec["cond"]), comments="direct"), mix


class _FixedClock:
    """Stands in for process.datetime: now() is constant, so two saves generate the same directory name."""

    def __init__(self, real):
        self._now = real.now()

    def now(self):
        return self._now


def _tree_hash(root):
    out = {}
    res = os.path.join(root, "results")
    if not os.path.isdir(res):
        return out
    for d in sorted(os.listdir(res)):
        h = hashlib.sha256()
        for base, _, files in sorted(os.walk(os.path.join(res, d))):
            for f in sorted(files):
                h.update(f.encode())
                with open(os.path.join(base, f), "rb") as fh:
                    h.update(fh.read())
        out[d] = h.hexdigest()
    return out


class SaveHistory:
    def __init__(self, init):
        self.models = [build_direct(m) for m in init["models"]]
        self.root = _tmp()
        self.saved = {}  # dir name -> sha256
        self.saves = 0
        self.collisions = 0
        self.failed = 0

    def _check_old(self, what):
        now = _tree_hash(self.root)
        for d, h in self.saved.items():
            require(d in now, "%s removed the previously saved directory %s", what, d)
            require(now[d] == h, "%s altered the previously saved process directory %s", what, d)
        return now

    def apply(self, op):
        import pyvaporation.process.process as pmod

        model, mix = self.models[op["model"] % len(self.models)]
        what = "%s(model %d, is_safe=%r)" % (op["op"], op["model"] % len(self.models), op["safe"])
        if op["op"] == "failing_save":
            # a save that is documented to fail (JSON mode needs initial conditions) must leave every earlier directory alone
            import attr as _attr

            broken = _attr.evolve(model, initial_conditions=None)
            out = call(broken.save, self.root, True)
            if not is_raised(out):
                raise Violation("%s: saving a model without initial conditions in JSON mode returned instead of raising" % what)
            self.failed += 1
        elif op["op"] == "save":
            pdir = save_and_load(model, mix, self.root, op["safe"], what)
            if pdir is not None:
                self.saves += 1
        else:  # forced collision: constant clock for two consecutive saves
            real = pmod.datetime
            pmod.datetime = _FixedClock(real)
            try:
                first = save_and_load(model, mix, self.root, op["safe"], what + " first")
                now = self._check_old(what)
                self.saved = now
                if first is not None:
                    self.saves += 1
                    before = dict(now)
                    second = call(model.save, self.root, not op["safe"])
                    after = _tree_hash(self.root)
                    if not is_raised(second):
                        raise Violation("%s: a second save that generates the same directory name did not raise; directories before %r, after %r"
                                        % (what, sorted(before), sorted(after)))
                    require(after == before, "%s: the colliding save altered the saved directories (%r -> %r)", what, before, after)
                    self.collisions += 1
            finally:
                pmod.datetime = real
        self.saved = self._check_old(what)

    def summary(self):
        return {"nontrivial": self.saves >= 2, "classes": ["saves=%d" % min(self.saves, 6), "collisions=%d" % min(self.collisions, 3), "failed-saves=%d" % min(self.failed, 3)]}

    def close(self):
        shutil.rmtree(self.root, ignore_errors=True)


def save_machine(tier, stats):
    init = st.fixed_dictionaries({"models": st.lists(direct_model(), min_size=1, max_size=3)})
    args = st.fixed_dictionaries({"model": st.integers(0, 2), "safe": st.booleans()})
    return history_machine("save-histories", SaveHistory, init, {"save": args, "collide": args, "failing_save": args}, stats, max_ops=6)


def check_history(case):
    return replay_history(SaveHistory, case)


PARTS = [
    Part("curve", lambda tier: curve_strategy(), check_curve, {"quick": 600, "thorough": 20000}, floor={"quick": 60, "thorough": 2000}),
    Part("function-conditions", lambda tier: fn_strategy(), check_fn, {"quick": 800, "thorough": 20000}, floor={"quick": 200, "thorough": 4000}),
    Part("process-ideal", lambda tier: procs.process_case(kinds=("ideal-iso", "ideal-noniso"), removal=(1e-4, 0.1), max_steps=6, builtin_share=1.0),
         check_process, {"quick": 240, "thorough": 8000}, floor={"quick": 25, "thorough": 800}, shrink={"quick": False, "thorough": True}),
    Part("process-non-ideal", lambda tier: procs.process_case(kinds=("nonideal-iso", "nonideal-noniso"), removal=(1e-4, 0.1), max_steps=5, builtin_share=1.0),
         check_process, {"quick": 160, "thorough": 1500}, floor={"quick": 8, "thorough": 100}, shrink={"quick": False, "thorough": True}),
    Part("save-histories", None, check_history, {"quick": 96, "thorough": 3000}, floor={"quick": 20, "thorough": 600},
         shrink={"quick": False, "thorough": True}, machine=save_machine, steps={"quick": 6, "thorough": 6}),
]
