"""C14 - permeance unit conversion is an exact, invertible change of units."""
import itertools
import math

from hypothesis import strategies as st

from .. import build, gen
from ..core import Part, Violation, call, is_raised, require, require_close
from ..refmodels import GPU_SI

ID = "C14"
RULE = ("cases: (value, linear factor k, second value, component, ordered unit triple A->B->C); the 27 ordered unit "
        "triples (hence all 9 ordered pairs) are enumerated by index inside the strategy, values are 0 or log-uniform "
        "1e-12..1e6, components built-in or random molar mass 1..1000; rejection part: missing component with kg/(m2 h kPa) "
        "on either side, generated unknown unit names on either side, negative/NaN values for the clamp. "
        "One Permeance object converted repeatedly (another component first; with, then without a component), molar mass of a used "
        "synthetic component edited in place / on copies, numeric type of the clamped value drawn (float, int, numpy ints and floats). "
        "non-trivial = value>0 and A!=B (conversion part) / every rejection case; distinct = SHA-1 of the case JSON")
ASSUMPTIONS = ["a Permeance object may be asked any number of times, for different components; negative values of any numeric type are clamped", "absolute factors as stated in the property: 1 kg/(m2 h kPa) = 1/(3600 M) SI, 1 GPU = 3.35e-10 SI",
               "relative tolerance 1e-14 for a handful of multiplications/divisions"]
TOL = 1e-14
TRIPLES = list(itertools.product(gen.UNITS, repeat=3))


def _factor(unit, mw):
    return {"SI": 1.0, "GPU": GPU_SI, "kg/(m2*h*kPa)": 1.0 / (3600.0 * mw)}[unit]


def _component():
    base = {"vp": {"type": "antoine", "a": 7.0, "b": -1700.0, "c": -40.0}, "cp": [75.0, 0.0, 0.0, 0.0], "uq": None}
    return st.one_of(
        st.sampled_from(gen.BUILTIN_COMPONENTS).map(lambda n: {"builtin": n}),
        gen.loguniform(1.0, 1000.0).map(lambda m: dict(base, name="S1", mw=m)),
    )


def _value():
    return st.one_of(st.just(0.0), gen.loguniform(1e-12, 1e6), gen.loguniform(1e-12, 1e6), gen.loguniform(1e-6, 1.0))


def strategy(tier):
    return st.fixed_dictionaries({
        "triple": st.integers(0, len(TRIPLES) - 1),
        "value": _value(), "value2": _value(), "k": gen.loguniform(1e-3, 1e3),
        "component": _component(),
    })


def _conv(value, frm, to, comp):
    p = build.permeance(value, frm)
    out = call(p.convert, build.fresh(to), comp)
    require(not is_raised(out), "convert %r %s->%s raised %r", value, frm, to, out)
    require(out.units == to, "convert %s->%s returned units %r", frm, to, out.units)
    require(out.value >= 0 and math.isfinite(out.value), "convert %r %s->%s returned value %r", value, frm, to, out.value)
    return out.value


def check(case):
    a, b, c = TRIPLES[case["triple"]]
    comp = build.component(case["component"])
    mw = comp.molecular_weight
    v, v2, k = case["value"], case["value2"], case["k"]
    ab = _conv(v, a, b, comp)
    # absolute factor
    require_close(ab, v * _factor(a, mw) / _factor(b, mw), TOL, "%r %s->%s (M=%r)" % (v, a, b, mw))
    if a == b:
        require(ab == v, "identity conversion %s->%s changed %r to %r", a, b, v, ab)
        # equal units need no component, whatever string object names them
        same = call(build.permeance(v, a).convert, build.fresh(b), None)
        require(not is_raised(same) and same.value == v, "conversion %s->%s (equal units, no component) gives %r", a, b, same)
    # path independence and invertibility
    abc = _conv(ab, b, c, comp)
    ac = _conv(v, a, c, comp)
    require_close(abc, ac, 4 * TOL, "path %s->%s->%s vs %s->%s of %r" % (a, b, c, a, c, v))
    aba = _conv(ab, b, a, comp)
    require_close(aba, v, 4 * TOL, "round trip %s->%s->%s of %r" % (a, b, a, v))
    # linearity
    require_close(_conv(k * v, a, b, comp), k * ab, 4 * TOL, "homogeneity %s->%s k=%r v=%r" % (a, b, k, v))
    s = _conv(v + v2, a, b, comp)
    require_close(s, ab + _conv(v2, a, b, comp), 4 * TOL, "additivity %s->%s of %r+%r" % (a, b, v, v2))
    # one Permeance object asked repeatedly: first for another component (different molar mass), then for this one, then again
    other = build.component({"builtin": "EtOH" if abs(mw - 46.07) > 1.0 else "H2O"})
    p = build.permeance(v, a)
    call(p.convert, build.fresh(b), other)
    for _ in range(2):
        again = call(p.convert, build.fresh(b), comp)
        require(not is_raised(again) and again.units == b, "a Permeance object converted a second time (%s->%s) gives %r", a, b, again)
        require_close(again.value, ab, TOL, "a Permeance object converted %s->%s for another component first, then for M=%r" % (a, b, mw))
    require(p.value == v and p.units == a, "convert modified the Permeance object it was called on: %r", p)
    # a user-defined component that has been used and is then given another molar mass - in place, or on a copy - converts with
    # the NEW molar mass (nothing may be remembered on the component)
    if "builtin" not in case["component"]:
        import copy

        mw2 = mw * 1.75 + 0.5
        twin = copy.copy(comp)
        twin.molecular_weight = mw2
        deep = copy.deepcopy(comp)
        deep.molecular_weight = mw2
        comp.molecular_weight = mw2
        for label, c_ in (("edited in place", comp), ("a copy.copy given another molar mass", twin), ("a copy.deepcopy given another molar mass", deep)):
            got = _conv(v, a, b, c_)
            require_close(got, v * _factor(a, mw2) / _factor(b, mw2), TOL, "%r %s->%s for a used component %s (M %r -> %r)" % (v, a, b, label, mw, mw2))
        comp.molecular_weight = mw
    # conversions that do not involve the mass unit need no component
    if "kg/(m2*h*kPa)" not in (a, b):
        require_close(_conv(v, a, b, None), ab, TOL, "%s->%s without component" % (a, b))
    return {"nontrivial": v > 0 and a != b, "classes": ["%s->%s" % (a, b), "zero" if v == 0 else "positive"]}


# ------------------------------------------------------------------------------- rejection / clamp
def rej_strategy(tier):
    unknown = st.text(alphabet="abcdefgGPUSIkKm2/()*hPa -_", min_size=0, max_size=12).filter(lambda s: s not in gen.UNITS)
    return st.one_of(
        st.fixed_dictionaries({"kind": st.just("no-component"), "value": _value(),
                               "other": st.sampled_from(["SI", "GPU"]), "kg_side": st.sampled_from(["from", "to"])}),
        st.fixed_dictionaries({"kind": st.just("unknown-unit"), "value": _value(), "unknown": unknown,
                               "known": st.sampled_from(gen.UNITS), "side": st.sampled_from(["from", "to"]),
                               "component": st.one_of(st.none(), _component())}),
        st.fixed_dictionaries({"kind": st.just("clamp"),
                               "value": st.one_of(st.floats(allow_nan=True, allow_infinity=False),
                                                  gen.loguniform(1e-12, 1e6).map(lambda x: -x)),
                               "form": st.sampled_from(["float", "float", "int", "numpy.int64", "numpy.float32", "numpy.float64"]),
                               "units": st.sampled_from(gen.UNITS)}),
    )


def check_rej(case):
    kind = case["kind"]
    if kind == "no-component":
        kg = "kg/(m2*h*kPa)"
        frm, to = (kg, case["other"]) if case["kg_side"] == "from" else (case["other"], kg)
        out = call(build.permeance(case["value"], frm).convert, to, None)
        if not is_raised(out):
            raise Violation("convert %s->%s without a component returned %r instead of raising" % (frm, to, out))
        # the same object asked first WITH a component (fine), then without: the second call still has nothing to convert with
        used = build.permeance(case["value"], frm)
        call(used.convert, to, build.component({"builtin": "H2O"}))
        out = call(used.convert, to, None)
        if not is_raised(out):
            raise Violation("a Permeance object converted %s->%s with a component first and then without one returned %r instead of raising"
                            % (frm, to, out))
        # the same for a Permeance that is itself the result of an earlier conversion WITH a component
        comp = build.component({"builtin": "EtOH"})
        src = "SI" if frm == kg else kg
        derived = call(build.permeance(case["value"], src).convert, frm, comp)
        if not is_raised(derived):
            out = call(derived.convert, to, None)
            if not is_raised(out):
                raise Violation("a permeance obtained by conversion (%s->%s with a component) converted %s->%s without a component returned %r "
                                "instead of raising" % (src, frm, frm, to, out))
        return {"nontrivial": True, "classes": ["no-component:%s" % case["kg_side"]]}
    if kind == "unknown-unit":
        comp = None if case["component"] is None else build.component(case["component"])
        frm, to = (case["unknown"], case["known"]) if case["side"] == "from" else (case["known"], case["unknown"])
        out = call(build.permeance(case["value"], frm).convert, to, comp)
        if not is_raised(out):
            raise Violation("convert %r->%r (unknown unit) returned %r instead of raising" % (frm, to, out))
        return {"nontrivial": True, "classes": ["unknown:%s" % case["side"]]}
    import numpy

    value, form = case["value"], case.get("form", "float")
    if form in ("int", "numpy.int64"):  # the nearest whole number away from zero, as an integer type
        if value != value or abs(value) > 1e15:
            form = "float"
        else:
            value = int(math.copysign(math.ceil(abs(value)), value))
            value = numpy.int64(value) if form == "numpy.int64" else value
    elif form == "numpy.float32":
        value = numpy.float32(value)
        if not numpy.isfinite(value) and case["value"] == case["value"]:
            value, form = case["value"], "float"
    elif form == "numpy.float64":
        value = numpy.float64(value)
    p = call(build.permeance, value, case["units"])
    require(not is_raised(p), "Permeance(%r) raised %r", value, p)
    require(p.value >= 0, "Permeance(%r as %s).value = %r is negative/NaN", value, form, p.value)
    if value >= 0:
        require(p.value == value, "Permeance(%r) stored %r", value, p.value)
    same = call(p.convert, build.fresh(case["units"]), None)
    require(not is_raised(same) and same.value >= 0, "Permeance(%r as %s) converted to its own unit gives %r", value, form, same)
    return {"nontrivial": not value >= 0, "classes": ["clamp", "clamp:" + form]}


PARTS = [
    Part("conversion", strategy, check, {"quick": 30000, "thorough": 300000}, floor={"quick": 5000, "thorough": 50000}),
    Part("rejection", rej_strategy, check_rej, {"quick": 6000, "thorough": 60000}, floor={"quick": 1000, "thorough": 10000}),
]
