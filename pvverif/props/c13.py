"""C13 - latent and cooling heats are consistent with vapour pressure and heat capacity."""
import math

from hypothesis import strategies as st

from .. import build, gen
from ..core import Part, call, is_raised, require
from ..refmodels import R, cp as ref_cp, gauss2, stencil5

ID = "C13"
RULE = ("latent part: vapour-pressure constants (12 built-in components, or random Antoine a 4..9, b -3000..-600, c -120..30 / "
        "Frost a 5..25, b -8000..-1000, c +-5e5) x T 200..500 K (>= 80 K from the Antoine pole); non-trivial = |H| > 1 kJ/mol. "
        "cooling part: cubic Cp with coefficients of either sign and magnitudes 1e-9..1e3 (or a built-in component) x three "
        "temperatures 200..500 K, also as int / numpy.int64 / arrays (incl. an empty interval, one buffer refilled in place), keyword calls, "
        "constants edited in place after use; non-trivial = t0 != t1 and t1 != t2. distinct = SHA-1 of the case JSON")
ASSUMPTIONS = ["Clausius-Clapeyron checked against a 5-point numerical derivative (h = 0.05 K) of the package's own "
               "ln Psat, relative tolerance 1e-6", "cooling heat compared with 2-point Gauss-Legendre quadrature of the "
               "package's own specific heat (exact for cubics), tolerance 1e-12 of the sum of absolute terms"]


def _vp():
    ant = st.fixed_dictionaries({"type": st.just("antoine"), "a": gen.uniform(4.0, 9.0), "b": gen.uniform(-3000.0, -600.0),
                                 "c": gen.uniform(-120.0, 30.0)})
    frost = st.fixed_dictionaries({"type": st.just("frost"), "a": gen.uniform(5.0, 25.0), "b": gen.uniform(-8000.0, -1000.0),
                                   "c": gen.uniform(-5.0e5, 5.0e5)})
    return st.one_of(ant, frost)


def _coef():
    return st.one_of(st.just(0.0), gen.signed_log(1e-9, 1e3))


def _comp(vp=None, cp=None):
    parts = {"name": st.just("S1"), "mw": gen.loguniform(10.0, 500.0), "uq": st.none(),
             "vp": vp or st.just({"type": "antoine", "a": 7.0, "b": -1700.0, "c": -40.0}),
             "cp": cp or st.just([75.0, 0.0, 0.0, 0.0])}
    return st.one_of(st.sampled_from(gen.BUILTIN_COMPONENTS).map(lambda n: {"builtin": n}), st.fixed_dictionaries(parts),
                     st.fixed_dictionaries(parts))


def latent_strategy(tier):
    return st.fixed_dictionaries({"component": _comp(vp=_vp()), "T": gen.uniform(200.0, 500.0)})


def check_latent(case):
    comp = build.component(case["component"])
    t = case["T"]
    vp = comp.vapour_pressure_constants
    h = call(comp.get_vaporisation_heat, t)
    require(not is_raised(h), "get_vaporisation_heat(%r) raised %r", t, h)

    def lnp(x):
        return math.log(float(comp.get_vapor_pressure(x)))

    slope = stencil5(lnp, t, 0.05)
    expect = R * t * t * slope / 1000.0  # kJ/mol
    err = abs(float(h) - expect)
    require(err <= 1e-6 * max(abs(expect), abs(float(h))) + 1e-9,
            "Clausius-Clapeyron: H(%r) = %r kJ/mol but R T^2 dlnPsat/dT = %r (%s constants a=%r b=%r c=%r)",
            t, float(h), expect, vp.type, vp.a, vp.b, vp.c)
    # the same temperature stated with another numeric type (a whole number of kelvin as a Python int, a numpy integer, an
    # integer array) is the same temperature
    import numpy

    ti = int(round(t))
    for name in ("get_vaporisation_heat", "get_vapor_pressure"):
        fn = getattr(comp, name)
        ref = [float(fn(float(ti))), float(fn(float(ti + 1)))]
        forms = (("int", ti, ref[0]), ("numpy.int64", numpy.int64(ti), ref[0]),
                 ("integer array", numpy.array([ti, ti + 1]), ref), ("float array", numpy.array([float(ti), ti + 1.0]), ref))
        for label, arg, expect_ in forms:
            got = call(fn, arg)
            require(not is_raised(got), "%s(%r as %s) raised %r", name, ti, label, got)
            got_l = [float(v) for v in numpy.ravel(got)]
            exp_l = expect_ if isinstance(expect_, list) else [expect_]
            tol_ = 1e-12
            require(len(got_l) == len(exp_l) and all(abs(g - e) <= tol_ * max(abs(e), 1e-300) for g, e in zip(got_l, exp_l)),
                    "%s(%r K given as %s) = %r, given as float %r (%s constants)", name, ti, label, got_l, exp_l, vp.type)
        # the SAME array object refilled in place by the caller and passed again (a time loop re-using its buffer)
        buf = numpy.array([float(ti), ti + 1.0])
        first = call(fn, buf)
        buf += 15.0
        second = call(fn, buf)
        want = [float(fn(float(ti) + 15.0)), float(fn(ti + 16.0))]
        require(not is_raised(first) and not is_raised(second) and
                numpy.shape(second) == (2,) and all(abs(float(g) - e) <= 1e-12 * max(abs(e), 1e-300) for g, e in zip(second, want)),
                "%s called again with the same array object refilled in place (+15 K) gives %r, scalar calls give %r (%s constants)",
                name, second, want, vp.type)
    return {"nontrivial": abs(float(h)) > 1.0, "classes": [vp.type, "builtin" if "builtin" in case["component"] else "random"],
            "target": {"cc_relerr": err / max(abs(expect), 1e-12)}}


def cooling_strategy(tier):
    cp = st.lists(_coef(), min_size=4, max_size=4)
    t = gen.uniform(200.0, 500.0)
    return st.fixed_dictionaries({"component": _comp(cp=cp), "t0": t, "t1": t, "t2": t})


def check_cooling(case):
    comp = build.component(case["component"])
    k = comp.heat_capacity_constants
    c = [k.a, k.b, k.c, k.d]
    t0, t1, t2 = case["t0"], case["t1"], case["t2"]

    def q(a, b):
        out = call(comp.get_cooling_heat, a, b)
        require(not is_raised(out), "get_cooling_heat(%r,%r) raised %r", a, b, out)
        return float(out)

    def scale(a, b):  # sum of absolute antiderivative terms at both limits
        return sum(abs(c[i]) * (abs(a) ** (i + 1) + abs(b) ** (i + 1)) / (i + 1) for i in range(4))

    # specific heat is the stated cubic
    for t in (t0, t1, t2):
        s = float(comp.get_specific_heat(t))
        ref = ref_cp(c, t)
        require(abs(s - ref) <= 1e-13 * sum(abs(c[i]) * t**i for i in range(4)) + 1e-300,
                "get_specific_heat(%r) = %r, cubic gives %r", t, s, ref)
    # integral of the specific heat (upper limit first)
    q01 = q(t0, t1)
    quad = gauss2(lambda x: float(comp.get_specific_heat(x)), t1, t0)
    tol = 1e-12 * scale(t0, t1) + 1e-300
    require(abs(q01 - quad) <= tol, "cooling heat Q(%r,%r) = %r but the integral of Cp is %r (Cp=%r)", t0, t1, q01, quad, c)
    # algebraic laws
    require(q(t0, t0) == 0.0, "Q(t,t) = %r != 0", q(t0, t0))
    require(abs(q01 + q(t1, t0)) <= tol, "antisymmetry: Q(%r,%r)=%r, Q(%r,%r)=%r", t0, t1, q01, t1, t0, q(t1, t0))
    tol3 = 1e-12 * (scale(t0, t1) + scale(t1, t2)) + 1e-300
    require(abs(q01 + q(t1, t2) - q(t0, t2)) <= tol3, "additivity: Q(%r,%r)+Q(%r,%r) = %r vs Q(%r,%r) = %r",
            t0, t1, t1, t2, q01 + q(t1, t2), t0, t2, q(t0, t2))
    # derivative with respect to the upper limit (5-point stencil is exact for quartics)
    d = stencil5(lambda x: q(x, t1), t0, 1.0)
    cpt = float(comp.get_specific_heat(t0))
    require(abs(d - cpt) <= 1e-9 * sum(abs(c[i]) * t0**i for i in range(4)) + 1e-11 * scale(t0 + 2, t1) + 1e-300,
            "dQ/dt0 at %r = %r but Cp = %r", t0, d, cpt)
    # keyword call (t0 = upper limit, t1 = lower limit, as documented)
    qk = call(comp.get_cooling_heat, t0=t0, t1=t1)
    require(not is_raised(qk) and float(qk) == q01, "get_cooling_heat(t0=%r, t1=%r) by keyword gives %r, positionally %r", t0, t1, qk, q01)
    # array-valued temperatures (numpy broadcasting): same numbers, arguments untouched
    import numpy

    a0, a1 = numpy.array([t0, t2]), numpy.array([t1, t1])
    qa = call(comp.get_cooling_heat, a0, a1)
    require(not is_raised(qa) and numpy.shape(qa) == (2,), "get_cooling_heat with arrays of 2 temperatures gives %r", qa)
    require(a0[0] == t0 and a0[1] == t2 and a1[0] == t1 and a1[1] == t1, "get_cooling_heat modified its array arguments: %r, %r", a0, a1)
    require(abs(float(qa[0]) - q01) <= tol and abs(float(qa[1]) - q(t2, t1)) <= 1e-12 * scale(t2, t1) + 1e-300,
            "get_cooling_heat with array temperatures gives %r, scalar calls give %r, %r", qa, q01, q(t2, t1))
    # an array in which one interval is empty (upper = lower limit) next to a non-empty one: element-wise, like two scalar calls
    b0, b1 = numpy.array([t0, t1, t2]), numpy.array([t1, t1, t1])
    qb = call(comp.get_cooling_heat, b0, b1)
    require(not is_raised(qb) and numpy.shape(qb) == (3,), "get_cooling_heat with arrays of 3 temperatures (one empty interval) gives %r", qb)
    require(abs(float(qb[0]) - q01) <= tol and float(qb[1]) == 0.0 and abs(float(qb[2]) - q(t2, t1)) <= 1e-12 * scale(t2, t1) + 1e-300,
            "get_cooling_heat with arrays containing an empty interval gives %r, scalar calls give %r, 0, %r", qb, q01, q(t2, t1))
    # the SAME array object refilled in place by the caller and passed again (a time loop re-using its buffer)
    buf = numpy.array([t0, t2])
    low = numpy.array([t1, t1])
    call(comp.get_cooling_heat, buf, low)
    buf += 7.0
    qc = call(comp.get_cooling_heat, buf, low)
    require(not is_raised(qc) and numpy.shape(qc) == (2,) and abs(float(qc[0]) - q(t0 + 7.0, t1)) <= 1e-12 * scale(t0 + 7.0, t1) + 1e-300
            and abs(float(qc[1]) - q(t2 + 7.0, t1)) <= 1e-12 * scale(t2 + 7.0, t1) + 1e-300,
            "get_cooling_heat called again with the same array object refilled in place gives %r, scalar calls give %r, %r",
            qc, q(t0 + 7.0, t1), q(t2 + 7.0, t1))
    if "builtin" not in case["component"]:
        # the constants of a component that has already been used are edited in place (a user tuning a fit): the integral must follow
        k.b = k.b * 1.5 + 0.25
        k.d = k.d * 0.5
        c2 = [k.a, k.b, k.c, k.d]
        q_new = float(comp.get_cooling_heat(t0, t1))
        quad_new = gauss2(lambda x: float(comp.get_specific_heat(x)), t1, t0)
        sc = sum(abs(c2[i]) * (abs(t0) ** (i + 1) + abs(t1) ** (i + 1)) / (i + 1) for i in range(4))
        require(abs(q_new - quad_new) <= 1e-12 * sc + 1e-300, "after editing the heat-capacity constants in place: cooling heat %r but the integral of Cp is %r",
                q_new, quad_new)
    return {"nontrivial": t0 != t1 and t1 != t2, "classes": ["builtin" if "builtin" in case["component"] else "random"]}


PARTS = [
    Part("clausius-clapeyron", latent_strategy, check_latent, {"quick": 20000, "thorough": 400000},
         floor={"quick": 5000, "thorough": 50000}),
    Part("cooling-heat", cooling_strategy, check_cooling, {"quick": 16000, "thorough": 300000},
         floor={"quick": 2500, "thorough": 40000}),
]
