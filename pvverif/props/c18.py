"""C18 - reported process states are physically admissible, otherwise the call raises."""
import math

from hypothesis import strategies as st

from .. import build, gen, procs
from ..core import Discard, Part, Violation, call, is_raised
from ..observe import EvaluationCap, Trace

ID = "C18"
RULE = ("cases: 4 process kinds x {NRTL, UNIQUAC} x built-in/synthetic mixtures x 3 permeate modes (permeate temperature down to 120 K, where "
        "UNIQUAC activity coefficients overflow) x 1..8 steps; 70% coarse discretisations in which step 0 removes 10%..1000% of the feed, "
        "30% fine ones (1e-4..0.1). Oracle: a returned trajectory has feed mass > 0 and finite, feed/permeate fractions in [0,1], feed "
        "temperature finite and > 0, finite fluxes and heats in every reported step; raising is accepted. "
        "Constructed classes: single self-cooling overshoots, feeds near the overflow of the vapour pressure, programmes below 0 K or "
        "overflowing to +inf, non-selective membranes exhausted cumulatively, steps at the exhaustion boundary of one component. "
        "non-trivial = the call raised, or the returned trajectory is stressed (final mass < 50% of the initial, temperature moved > 30 K, "
        "or steps x removal >= 1); distinct = SHA-1 of the case JSON")
ASSUMPTIONS = ["any exception type counts as 'raises'", "only reported states are examined (the popped look-ahead state is not)"]


@st.composite
def strategy(draw, kinds, max_steps=8):
    coarse = draw(st.integers(0, 9)) < 7
    c = draw(procs.process_case(kinds=kinds, removal=(0.1, 10.0) if coarse else (1e-4, 0.1), max_steps=max_steps))
    c["coarse"] = coarse
    if c["kind"].endswith("noniso") and draw(st.integers(0, 9)) < 3:
        # thin region: self-cooling driven below 0 K by ONE step that removes 30..97% of the feed, landing on the LAST reported
        # state (nothing after it can raise) - found by a seeded change that the plain generator reached only at some seeds
        c["program"] = None
        c["steps"] = draw(st.integers(2, 3))
        c["removal"] = draw(gen.uniform(0.3, 0.97))
        c["coarse"] = True
    if c["kind"].endswith("-iso") and draw(st.integers(0, 7)) == 0:
        # far outside the validity range of the vapour-pressure equations (around the Antoine pole of a component): whatever the
        # model makes of it, it must raise or report finite states
        c["mixture"] = {"builtin": draw(st.sampled_from(gen.BUILTIN_MIXTURES))}
        antoine = {"H2O": (7.20389, -1733.926, -39.485), "MeOH": (7.2209903, -1590.15535, -32.77001), "EtOH": (7.24677, -1598.673, -46.424)}
        a_, b_, c_ = antoine[c["mixture"]["builtin"].split("_")[0]]
        if draw(st.booleans()):
            # just below the pole where log10(Psat) is 290..308.3: the pressure (and the flux) is finite but close to the largest
            # double, a product with it overflows
            c["T"] = -c_ + b_ / (draw(gen.uniform(300.0, 308.3)) - a_)
        else:
            c["T"] = -c_ - draw(gen.loguniform(1e-3, 8.0))
        c["perm"] = draw(st.sampled_from([{"mode": "vacuum", "T": None, "p": None}, {"mode": "pressure", "T": None, "p": 0.0}]))
        c["membrane"] = gen.simple_membrane(0.01, 0.02, t=c["T"], ea1=0.0, ea2=0.0)
        c["steps"] = draw(st.integers(1, 3))
        c["degenerate"] = True
        c["force_dt"] = draw(st.sampled_from([1.0, 1.0, 0.1, None]))  # a plain step length (not scaled to the astronomically large flux)
        c["area"], c["amount"] = 1.0, 1.0
    if c["kind"].endswith("noniso") and not c.get("degenerate") and draw(st.integers(0, 11)) == 0:
        # a temperature programme that OVERFLOWS to +inf at state j >= 1 (exponential type, resolved in the check): an infinite feed
        # temperature is not a state either - for vapour-pressure equations that stay finite at T = inf (Frost) nothing but the
        # temperature itself can signal it
        c["steps"] = draw(st.integers(2, 4))
        c["overflow_program"] = {"at": draw(st.integers(1, c["steps"] - 1))}
        c["program"] = None
        c["removal"] = draw(gen.loguniform(1e-4, 0.05))
        c["coarse"] = False
        return c
    if not c.get("degenerate") and draw(st.integers(0, 11)) == 0:
        # EXHAUSTION BOUNDARY: the step length is resolved in the check so that step 0 removes the component that runs out first
        # (1 + eps) times - a few ppm, or a few roundings, beyond / short of what the feed holds: the next state has a fraction just
        # outside [0,1] (must raise) or just inside (fine)
        c["exhaust"] = {"eps": draw(gen.signed_log(1e-14, 1e-3))}
        c["steps"] = draw(st.integers(2, 3))
        c["program"] = None
        c["coarse"] = True
        return c
    if not c.get("degenerate") and draw(st.integers(0, 9)) == 0:
        # NON-SELECTIVE membrane (permeate composition = feed composition, resolved in the check from the feed partial pressures):
        # the feed composition stays put, so BOTH components are over-drawn at the same step and the feed runs out CUMULATIVELY
        # over several coarse steps, none of which removes the whole feed - nothing but the mass itself can signal the exhaustion
        c["nonselective"] = {"p2": draw(gen.loguniform(1e-3, 0.1))}
        c["removal"] = draw(gen.uniform(0.3, 0.97))
        c["steps"] = min(int(math.ceil(1.0 / c["removal"])) + draw(st.integers(1, 2)), max_steps)
        c["perm"] = {"mode": "vacuum", "T": None, "p": None}
        c["program"] = None
        c["coarse"] = True
        c["x"], c["basis"] = draw(gen.uniform(0.2, 0.8)), "weight"
        return c
    roll = draw(st.integers(0, 19))
    if c["kind"].endswith("noniso") and roll < 2:
        # a temperature programme that runs below 0 K within the requested steps (must raise, whatever state it lands on)
        c["program"] = {"type": "polynomial", "t_end": draw(gen.uniform(-400.0, -25.0)), "deg": draw(st.integers(1, 2)),
                        "w": draw(gen.uniform(-0.4, 0.4)), "c1": 0.0, "c0": 80.0, "offset": 0.0, "w3": 0.0}
        c["steps"] = draw(st.integers(2, 4))
    elif roll == 2:
        # degenerate but admissible corner: a pure feed and a membrane that does not pass the component present
        # (total flux exactly zero: the permeate composition is undefined, the call must raise rather than report NaN)
        pure_first = draw(st.booleans())
        c["x"] = 1.0 if pure_first else 0.0
        key = "e1" if pure_first else "e2"
        c["membrane"] = dict(c["membrane"], **{key: [dict(e, value=0.0) for e in c["membrane"][key]]})
        c["perm"] = {"mode": "vacuum", "T": None, "p": None}
        c["degenerate"] = True
    return c


def _fin(x):
    try:
        return math.isfinite(float(x))
    except (TypeError, ValueError):
        return False


def admissible(model, n, expect_condensation):
    for k in range(n):
        m = model.feed_mass[k]
        if not (_fin(m) and float(m) > 0):
            return "step %d: feed mass %r" % (k, m)
        t = model.feed_temperature[k]
        if not (_fin(t) and float(t) > 0):
            return "step %d: feed temperature %r" % (k, t)
        for name, c in (("feed", model.feed_compositions[k]), ("permeate", model.permeate_composition[k])):
            if not (_fin(c.p) and 0.0 <= c.p <= 1.0):
                return "step %d: %s fraction %r" % (k, name, c.p)
        for i in (0, 1):
            if not _fin(model.partial_fluxes[k][i]):
                return "step %d: flux %d = %r" % (k, i + 1, model.partial_fluxes[k][i])
        if not _fin(model.feed_evaporation_heat[k]):
            return "step %d: evaporation heat %r" % (k, model.feed_evaporation_heat[k])
        ch = model.permeate_condensation_heat[k]
        if expect_condensation and not _fin(ch):
            return "step %d: condensation heat %r" % (k, ch)
    return None


def _resolve_nonselective(case):
    from pyvaporation.mixtures import get_partial_pressures

    mix = build.mixture(case["mixture"])
    w, t = case["x"], case["T"]
    pf = call(get_partial_pressures, t, mix, build.composition(w, "weight"), case["model"])
    if is_raised(pf) or not all(math.isfinite(float(v)) and float(v) > 0 for v in pf):
        raise Discard("feed partial pressures not finite/positive")
    p2 = case["nonselective"]["p2"]
    p1 = p2 * (w / (1.0 - w)) * float(pf[1]) / float(pf[0])
    if not (1e-9 < p1 < 1e3):
        raise Discard("non-selective permeance out of range")
    const = lambda v: {"alpha": v, "a1": 0.0, "a2": 0.0, "b0": 0.0, "b1": 0.0}
    out = dict(case, membrane=gen.simple_membrane(p1, p2, t=t, ea1=0.0, ea2=0.0))
    if case["kind"].startswith("nonideal"):
        out["curves"] = {"truth": [const(p1), const(p2)],
                         "curves": [{"T": t, "ws": [0.1, 0.3, 0.5, 0.7, 0.9], "basis": "weight", "from": "permeances", "noise": [[0.0, 0.0]] * 5}]}
        out["initial"] = {"p1": p1, "p2": p2, "units": build.KG}
        out["orders"] = {"n1": 0, "m1": 0, "n2": 0, "m2": 0}
    return out


def check(case):
    if case.get("nonselective"):
        case = _resolve_nonselective(case)
    s = procs.setup(case)
    classes = procs.classes_of(case) + ["coarse" if case.get("coarse") else "fine"] + (["non-selective"] if case.get("nonselective") else []) + (["exhaustion-boundary"] if case.get("exhaust") else []) + (["overflowing-programme"] if case.get("overflow_program") else [])
    try:
        with Trace(s.pv, cap=60000, keep=False):
            try:
                dt = procs.step_length(case, s)
            except Discard:
                if not case.get("degenerate"):
                    raise
                dt = 1.0  # zero total flux: no flux scale exists, any step length will do
            if case.get("force_dt"):
                dt = case["force_dt"]
            if case.get("exhaust"):
                j = procs.step0_fluxes(case, s)
                if is_raised(j) or not all(math.isfinite(float(v)) and float(v) > 0 for v in j):
                    raise Discard("no positive step-0 fluxes")
                held = (case["amount"] * s.w0, case["amount"] * (1.0 - s.w0))
                dt = min(held[i] / (case["area"] * float(j[i])) for i in (0, 1)) * (1.0 + case["exhaust"]["eps"])
                if not (math.isfinite(dt) and dt > 0):
                    raise Discard("step length not representable")
            spec = None
            if case.get("overflow_program"):
                spec = procs.conditions_spec(case, s, dt)
                span = case["overflow_program"]["at"] * dt
                if not (1e-12 < span < 1e8):
                    raise Discard("step length out of range for the overflowing programme")
                # T(x) = T0 exp(800 (x / span)^20): T0 (within 1e-3 K) before `span`, +inf from `span` on
                spec["program"] = {"type": "exponential", "coefficients": [case["T"]] + [0.0] * 20 + [800.0 / span ** 20]}
            model = procs.run(case, s, dt, cond_spec=spec)
    except EvaluationCap:
        raise Discard("evaluation cap reached (termination is C10's subject)")
    n = case["steps"]
    if is_raised(model):
        return {"nontrivial": True, "classes": classes + ["raised:" + model.type]}
    bad = admissible(model, n, case["perm"]["T"] is not None)
    if bad:
        raise Violation("%s model returned an inadmissible trajectory instead of raising: %s (masses %r, temperatures %r)"
                        % (case["kind"], bad, [float(v) for v in model.feed_mass], [float(v) for v in model.feed_temperature]))
    stressed = (float(model.feed_mass[-1]) < 0.5 * case["amount"] or abs(float(model.feed_temperature[-1]) - case["T"]) > 30.0
                or n * case["removal"] >= 1.0)
    return {"nontrivial": stressed, "classes": classes + ["returned", "stressed" if stressed else "calm"]}


PARTS = [
    Part("ideal", lambda tier: strategy(("ideal-iso", "ideal-noniso")), check, {"quick": 3000, "thorough": 100000},
         floor={"quick": 500, "thorough": 15000}, max_discard=0.5),
    Part("non-ideal", lambda tier: strategy(("nonideal-iso", "nonideal-noniso"), 6), check, {"quick": 240, "thorough": 6000},
         floor={"quick": 40, "thorough": 1000}, shrink={"quick": False, "thorough": True}, max_discard=0.5),
]
