"""C20 - modelling calls are pure: no hidden state, arguments untouched, repeatable."""
import multiprocessing

from hypothesis import strategies as st

from .. import c20ops, gen, procs
from ..core import Part, Violation, history_machine, replay_history, require

ID = "C20"
RULE = ("stateful: ONE set of shared objects (mixture - built-in singleton or synthetic -, membrane with experiments and a curve set, "
        "conditions, three Composition objects, a Measurements object, a permeance pair) and a history of 2..12 modelling calls on them: flux "
        "solver, permeate-composition / separation-factor helpers, partial pressures, ideal curve, non-ideal curve, 4 process models, fit, "
        "find_best_fit, measurement extraction, membrane queries, each with generated arguments (orders <= 1, <= 4 steps, zero points both ways). "
        "After EVERY call: deep snapshot of the shared objects and of all built-in Components/Mixtures unchanged; the call's numeric result "
        "bit-identical to the same call repeated immediately, and (quick: a generated third of the calls; thorough: every call) to the same "
        "call executed as the FIRST call of a fresh process (forkserver child that has imported the package and never called it) on arguments "
        "rebuilt from plain data; histories carry programmes starting off the initial temperature, temperatures a few mK apart, curve sets "
        "listed hottest-first. non-trivial = >= 2 calls of which one is a process / non-ideal curve / fit with zero points and >= 1 "
        "fresh-process comparison was made; distinct = SHA-1 of the case JSON (initial objects + call sequence)")
ASSUMPTIONS = ["'fresh interpreter state' is realised as a new process forked from a forkserver after import of the package (no call made before)",
               "`comments` strings embed datetime.now() and are excluded from comparisons",
               "results are deterministic functions of their inputs on this platform (single-threaded BLAS; measured)"]

_pool = None


def _fresh(init, op):
    """Executes (init, op) in a brand-new process forked from a forkserver that has only imported the code."""
    global _pool
    if _pool is None:
        ctx = multiprocessing.get_context("forkserver")
        ctx.set_forkserver_preload(["pvverif.c20ops"])
        _pool = ctx.Pool(1, maxtasksperchild=1)
    return _pool.apply(c20ops.fresh_execute, (init, op))


@st.composite
def init_strategy(draw):
    mix = draw(gen.mixture(("NRTL", "UNIQUAC"), 0.6))
    t = draw(gen.uniform(300.0, 360.0))
    curves = draw(procs.curve_set(n_curves=(1, 2), n_points=(3, 5)))
    tr = curves["truth"][0]
    pts = []
    for c in curves["curves"]:
        for w in c["ws"]:
            pts.append([w, c["T"], procs.truth_value(tr, w, c["T"])])
    return {
        "mixture": mix, "curves": curves, "membrane": draw(gen.membrane(3, draw(st.sampled_from([("kg/(m2*h*kPa)",), ("kg/(m2*h*kPa)",), ("SI",), ("GPU",)])))),
        "cond": {"area": 1.0, "T": t, "amount": draw(gen.loguniform(50.0, 5000.0)), "x": draw(gen.mid_fraction()), "basis": draw(gen.basis),
                 "Tp": None, "pp": None},
        "comps": _comps(draw),
        "program": draw(st.one_of(st.none(), st.fixed_dictionaries({
            "type": st.sampled_from(["polynomial", "polynomial", "exponential", "logarithmic"]), "rate": gen.uniform(-3.0, 3.0),
            "as_array": st.booleans(), "offset": st.sampled_from([0.0, 0.0, 0.5, -0.5, 5.0, -5.0])}))),
        "length": draw(st.integers(2, 12)),
        "points": pts, "perms": [draw(gen.loguniform(1e-4, 0.3)), draw(gen.loguniform(1e-4, 0.3))],
    }


def _comps(draw):
    """Three shared Composition objects; the third carries the same NUMBER as the first in the other basis (same value,
    different meaning: exposes memoisation keyed on the number only)."""
    a = {"p": draw(gen.mid_fraction()), "basis": draw(gen.basis)}
    b = draw(st.one_of(st.fixed_dictionaries({"p": gen.mid_fraction(), "basis": gen.basis}),
                       st.fixed_dictionaries({"p": st.sampled_from([0.0, 1.0]), "basis": gen.basis})))  # sometimes a pure composition
    return [a, b, {"p": a["p"], "basis": "molar" if a["basis"] == "weight" else "weight"}]


def _common(tier):
    fresh = st.just(True) if tier == "thorough" else st.integers(0, 2).map(lambda i: i == 0)
    return {"model": gen.model, "comp": st.integers(0, 2), "precision": gen.loguniform(1e-6, 1e-3), "fresh": fresh,
            # temperatures a few mK (or one part in 1e11) apart occur within one history: results remembered under a rounded key show
            "Tp": st.one_of(st.none(), gen.uniform(200.0, 290.0), st.sampled_from([260.0, 260.004])),
            "T": st.one_of(gen.uniform(300.0, 360.0), st.sampled_from([330.0, 330.0, 330.004, 330.0 + 1e-9]))}


def rules(tier):
    c = _common(tier)
    small = {"n": st.integers(0, 1), "m": st.integers(0, 1), "include_zero": st.booleans(), "ci": st.integers(0, 1)}

    def fd(**kw):
        d = dict(c)
        d.update(kw)
        return st.fixed_dictionaries(d).map(_fix_perm)

    return {
        "solver": fd(pp=st.one_of(st.none(), st.just(0.0), gen.loguniform(1e-3, 1.0)), explicit=st.booleans()),
        "permeate_composition": fd(pp=st.none()),
        "separation_factor": fd(pp=st.none()),
        "partial_pressures": fd(pp=st.none(), other_mixture=st.booleans()),
        "ideal_curve": fd(pp=st.none()),
        "nonideal_curve": fd(pp=st.none(), steps=st.integers(1, 3), explicit=st.booleans(), **{k: small[k] for k in ("n", "m", "include_zero")}),
        "process": fd(pp=st.none(), kind=st.sampled_from(procs.KINDS), steps=st.integers(1, 4), dt=gen.loguniform(0.01, 1.0), explicit=st.booleans(),
                      **{k: small[k] for k in ("n", "m", "include_zero")}),
        "fit": fd(pp=st.none(), **small),
        "find_best_fit": fd(pp=st.none(), **small),
        "measurements": fd(pp=st.none(), ci=st.integers(0, 1)),
        "curve_metrics": fd(pp=st.none(), ci=st.integers(0, 1)),
        "membrane": fd(pp=st.none(), ci=st.integers(0, 1), what=st.sampled_from(["permeance", "activation_energy", "selectivity", "pure_flux"]),
                       basis=st.sampled_from(["molar", "weight"])),
    }


def _fix_perm(op):
    if op.get("pp") is not None:
        op = dict(op, Tp=None)
    return op


STATEFUL = {"process", "nonideal_curve"}


class PureHistory:
    def __init__(self, init):
        self.init = init
        procs.failed_calls_once()  # documented-to-fail calls earlier in THIS process must leave no trace (the fresh process has none)
        self.o = c20ops.build_objects(init)
        self.before = c20ops.shared_snapshot(self.o)
        self.globals = c20ops.globals_snapshot()
        self.n = 0
        self.touch = False
        self.fresh = 0

    def apply(self, op):
        name = op["op"]
        what = "%s(%s)" % (name, ", ".join("%s=%r" % (k, v) for k, v in sorted(op.items()) if k not in ("op", "fresh")))
        r1 = c20ops.exec_op(self.o, op)
        after = c20ops.shared_snapshot(self.o)
        if after != self.before:
            diff = [n for n, a, b in zip(["mixture", "curve set", "membrane", "conditions", "compositions", "measurements", "permeances"], after[1], self.before[1]) if a != b]
            raise Violation("call %d, %s, modified its shared argument objects: %s" % (self.n, what, ", ".join(diff) or "?"))
        require(c20ops.globals_snapshot() == self.globals, "call %d, %s, modified a built-in component or mixture", self.n, what)
        r2 = c20ops.exec_op(self.o, op)
        require(r1 == r2, "call %d, %s: the same call repeated immediately returns a different result", self.n, what)
        require(c20ops.shared_snapshot(self.o) == self.before, "call %d, %s (repeated) modified its shared argument objects", self.n, what)
        if op.get("fresh"):
            r3 = _fresh(self.init, op)
            self.fresh += 1
            if r3 != r1:
                raise Violation("call %d of the history, %s, returns a different result than the same call made first in a fresh process "
                                "(history result %s..., fresh %s...)" % (self.n, what, str(r1)[:160], str(r3)[:160]))
        self.n += 1
        if name in STATEFUL or (name in ("fit", "find_best_fit") and op.get("include_zero")):
            self.touch = True

    def summary(self):
        return {"nontrivial": self.n >= 2 and self.touch and self.fresh >= 1, "classes": ["calls=%d" % min(self.n, 12), "fresh=%d" % min(self.fresh, 12)]}

    def close(self):
        pass


def machine(tier, stats):
    return history_machine("call-histories", PureHistory, init_strategy(), rules(tier), stats, max_ops=lambda init: init.get("length", 12))


def check_history(case):
    return replay_history(PureHistory, case)


PARTS = [
    Part("call-histories", None, check_history, {"quick": 96, "thorough": 3000}, floor={"quick": 20, "thorough": 600},
         shrink={"quick": False, "thorough": True}, machine=machine, steps={"quick": 12, "thorough": 12}),
]
PARTS[0].min_per_shard = 6
