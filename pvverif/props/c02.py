"""C02 - returned fluxes obey the solution-diffusion law at a self-consistent permeate."""
import math

from hypothesis import strategies as st

from .. import build, gen
from ..core import Discard, Part, call, is_raised, relerr, require
from ..observe import EvaluationCap
from ..solver import legit_exit_flip, make_pv, solve

ID = "C02"
RULE = ("cases: 8 built-in + synthetic mixtures x {NRTL, UNIQUAC} x {vacuum, permeate temperature 120 K..T_feed (30% within 5 K), "
        "permeate pressure 0 or 1e-3..100 kPa} x permeances 1e-6..1 (explicit or membrane-derived) x feed fraction in (0,1) "
        "(molar or mass) x T 273..400 K x precision 1e-8..1e-3 x permeance scale factor (2^j, j=-10..10, or 1e-3..1e3). "
        "non-trivial = permeate temperature or pressure>0, the solver returned, >= 2 traced evaluations and both driving "
        "forces > 1e-6 of the feed partial pressure; distinct = SHA-1 of the case JSON")
ASSUMPTIONS = ["feed/permeate partial pressures are recomputed with pyvaporation.mixtures.get_partial_pressures (C04 checks it separately)",
               "iterate sequence observed through an instance-level wrapper of get_partial_fluxes_from_permeate_composition",
               "self-consistency within the requested precision is asserted only for locally contractive iterations, as the property says",
               "calls that raise (negative driving force -> fraction outside [0,1], non-convergence) are discards"]
TOL = 1e-12


def strategy(tier):
    base = st.one_of(gen.solver_case(), gen.solver_case(modes=("temperature", "pressure")))

    @st.composite
    def full(draw):
        c = draw(base)
        c["explicit"] = draw(st.integers(0, 4)) > 0
        # a sibling question asked first on the SAME Pervaporation object (the law must hold whatever was asked before)
        c["warm"] = draw(st.sampled_from([None, None, "basis", "precision", "permeances", "mode", "temperature"]))
        c["scale"] = draw(st.one_of(st.integers(-10, 10).map(lambda j: 2.0**j), gen.loguniform(1e-3, 1e3)))
        return c

    return full()


def _perm_pp(mix, case, y):
    """Permeate-side partial pressures at mass fraction y, per mode; pressure mode returns both admissible partitions."""
    from pyvaporation.mixtures import get_partial_pressures

    mode = case["perm"]["mode"]
    if mode == "vacuum":
        return [(0.0, 0.0)]
    if mode == "temperature":
        pp = get_partial_pressures(case["perm"]["T"], mix, build.composition(y, "weight"), case["model"])
        return [(float(pp[0]), float(pp[1]))]
    p = case["perm"]["p"]
    m1, m2 = mix.first_component.molecular_weight, mix.second_component.molecular_weight
    ym = (y / m1) / (y / m1 + (1 - y) / m2)
    return [(p * y, p * (1 - y)), (p * ym, p * (1 - ym))]


def _permeances(pv, mix, case):
    if case.get("explicit", True):
        return case["p1"], case["p2"]
    kg = build.KG
    a = pv.membrane.get_permeance(case["T"], mix.first_component).convert(kg, mix.first_component).value
    b = pv.membrane.get_permeance(case["T"], mix.second_component).convert(kg, mix.second_component).value
    return float(a), float(b)


def _comp(j):
    return j[0] / (j[0] + j[1])


def check(case):
    from pyvaporation.mixtures import get_partial_pressures

    pv, mix = make_pv(case)
    explicit = case.get("explicit", True)
    warm = case.get("warm")
    if warm:
        sib = dict(case)
        if warm == "basis":
            sib["basis"] = "molar" if case["basis"] == "weight" else "weight"
        elif warm == "precision":
            sib["precision"] = min(case["precision"] * 37.0, 1e-2)
        elif warm == "permeances":
            sib["p1"], sib["p2"] = case["p2"], case["p1"]
        elif warm == "mode":
            sib["perm"] = {"mode": "vacuum", "T": None, "p": None} if case["perm"]["mode"] != "vacuum" else {"mode": "pressure", "T": None, "p": 1.0}
        elif warm == "temperature":
            sib["T"] = case["T"] + 7.0
        try:
            solve(pv, sib, explicit=explicit, keep=False)
        except EvaluationCap:
            pass
    try:
        out, tr = solve(pv, case, explicit=explicit)
    except EvaluationCap:
        raise Discard("evaluation cap reached (termination is C10's subject)")
    mode = case["perm"]["mode"]
    classes = [case["model"], mode, "builtin" if "builtin" in case["mixture"] else "synthetic",
               "explicit" if explicit else "membrane", "warm:%s" % warm]
    if is_raised(out):
        if out.type not in ("ValueError",):
            classes.append("raised:" + out.type)
        raise Discard("solver raised %s" % out.type)
    require(isinstance(out, tuple) and len(out) == 2, "solver returned %r", out)
    j = (float(out[0]), float(out[1]))
    p1, p2 = _permeances(pv, mix, case)
    feed = build.composition(case["x"], case["basis"])
    pf = tuple(float(v) for v in get_partial_pressures(case["T"], mix, feed, case["model"]))
    if not all(math.isfinite(v) for v in j + pf):
        raise Discard("non-finite fluxes or feed pressures (admissibility is C18's subject)")
    perms = (p1, p2)

    # (5) exact closed forms
    if mode == "vacuum" or (mode == "pressure" and case["perm"]["p"] == 0):
        for i in (0, 1):
            require(relerr(j[i], perms[i] * pf[i]) <= 4e-16,
                    "zero permeate pressure: flux %d = %r but permeance x feed partial pressure = %r", i + 1, j[i], perms[i] * pf[i])
    if mode == "pressure":
        p = case["perm"]["p"]
        lhs = j[0] / p1 + j[1] / p2
        rhs = pf[0] + pf[1] - p
        require(abs(lhs - rhs) <= TOL * (pf[0] + pf[1] + p),
                "fixed permeate pressure %r kPa: J1/P1 + J2/P2 = %r but p_feed1 + p_feed2 - p = %r", p, lhs, rhs)

    evals = tr.evals
    traced = len(evals) >= 2 and all(e[0] is not None and e[1] is not None for e in evals)
    contractive = False
    if traced:
        ys = [e[0] for e in evals]
        # (1) the returned fluxes are the solution-diffusion law evaluated at the last iterate
        y_last = ys[-1]
        require(relerr(j[0], evals[-1][1][0]) <= 4e-16 and relerr(j[1], evals[-1][1][1]) <= 4e-16,
                "returned fluxes %r are not those of the final evaluation %r", j, evals[-1][1])
        match = None
        worst = None
        for pi, pp in enumerate(_perm_pp(mix, case, y_last)):
            errs = [abs(j[i] - perms[i] * (pf[i] - pp[i])) / (perms[i] * max(abs(pf[i]), abs(pp[i])) + 1e-300) for i in (0, 1)]
            if max(errs) <= TOL and match is None:
                match = pi
            worst = (pp, errs) if worst is None or max(errs) < max(worst[1]) else worst
        require(match is not None, "fluxes %r != permeance x (feed - permeate partial pressure) at the last iterate y=%r: feed %r, "
                "permeate %r, permeances %r (relative errors %r)", j, y_last, pf, worst[0], perms, worst[1])
        # (2) iterate chain: y0 from P*pf, y_{j+1} from the fluxes of evaluation j
        y0 = perms[0] * pf[0] / (perms[0] * pf[0] + perms[1] * pf[1])
        require(abs(ys[0] - y0) <= 1e-12, "first iterate %r is not the composition of permeance x feed pressure (%r)", ys[0], y0)
        idx = list(range(min(3, len(evals) - 1))) + list(range(max(0, len(evals) - 4), len(evals) - 1))
        for k in sorted(set(idx)):
            nxt = _comp(evals[k][1])
            require(abs(ys[k + 1] - nxt) <= 1e-12, "iterate %d is %r but the fluxes of evaluation %d have composition %r",
                    k + 1, ys[k + 1], k, nxt)
        # (3) stopping rule
        d_last = abs(ys[-1] - ys[-2])
        require(d_last < case["precision"], "stopped with |y_k - y_(k-1)| = %r >= precision %r", d_last, case["precision"])
        ds = [abs(ys[k + 1] - ys[k]) for k in range(len(ys) - 1)]

        def gmap(y):
            pp = _perm_pp(mix, case, y)[match]
            a, b = p1 * (pf[0] - pp[0]), p2 * (pf[1] - pp[1])
            return a / (a + b)

        # Lipschitz estimate at the SCALE of the stopping tolerance (the map can be steep over 1e-5 and flat over 1e-6
        # near equilibrium: thorough-tier false alarm, DESIGN section 12); undecidable closer than h to an end point
        h = max(1e-6, 2 * case["precision"], 2 * d_last)
        lip = math.inf
        if mode != "vacuum" and h < y_last < 1 - h:
            lip = max(abs(gmap(y_last + h) - gmap(y_last - h)) / (2 * h), abs(gmap(y_last + h) - gmap(y_last)) / h,
                      abs(gmap(y_last) - gmap(y_last - h)) / h)
        # locally contractive: non-increasing steps along the trace AND finite-difference Lipschitz estimate < 0.9
        contractive = all(ds[k + 1] <= ds[k] for k in range(len(ds) - 1)) and lip < 0.9
        if contractive:
            require(abs(_comp(j) - y_last) < case["precision"] or d_last == 0.0,
                    "contractive iteration (local Lipschitz %.3g): composition of the returned fluxes %r differs from the permeate "
                    "composition used %r by more than the precision %r", lip, _comp(j), y_last, case["precision"])
        classes.append("contractive" if contractive else "non-contractive")
        n = len(evals)
        classes.append("evals=2" if n == 2 else "evals<10" if n < 10 else "evals<100" if n < 100 else "evals>=100")
    else:
        classes.append("untraced")

    # (4) black-box self-consistency, permeate-temperature mode, when the reference map is locally contractive
    if mode == "temperature":
        yj = _comp(j)
        h = max(1e-6, 2 * case["precision"])

        def g(y):
            pp = _perm_pp(mix, case, y)[0]
            a, b = p1 * (pf[0] - pp[0]), p2 * (pf[1] - pp[1])
            return a / (a + b)

        if h < yj < 1 - h:
            gy = g(yj)
            lip = max(abs(g(yj + h) - g(yj - h)) / (2 * h), abs(g(yj + h) - gy) / h, abs(gy - g(yj - h)) / h)
            if math.isfinite(lip) and lip < 0.9 and math.isfinite(gy) and (contractive or not traced):
                require(abs(gy - yj) < case["precision"],
                        "black box: permeate composition %r of the returned fluxes is not a fixed point of the driving-force map "
                        "within the precision %r (map gives %r, local Lipschitz %.3g)", yj, case["precision"], gy, lip)
                classes.append("blackbox-fixed-point")

    # (6) permeance scaling twin
    k = case.get("scale", 2.0)
    if explicit:
        twin = dict(case, p1=case["p1"] * k, p2=case["p2"] * k)
        try:
            out2, tr2 = solve(pv, twin)
        except EvaluationCap:
            out2 = None
        if out2 is not None and not is_raised(out2):
            j2 = (float(out2[0]), float(out2[1]))
            if len(tr2.evals) == len(evals):
                pow2 = math.frexp(k)[0] == 0.5
                tol = 1e-12 if pow2 else 1e-9
                tiny = min(abs(v) for v in j + j2) < 1e-290
                if not tiny:
                    # conditioning: last-bit differences in the iterate y are amplified by 1/min(y,1-y) (fraction of the
                    # minor permeate component) and by the cancellation feed - permeate pressure
                    yj = _comp(j)
                    end = 1.0 / max(min(yj, 1.0 - yj), 1e-300)
                    worst = max(max(perms[i] * pf[i], abs(j[0]) + abs(j[1])) / max(abs(j[i]), 1e-300) for i in (0, 1))
                    if not pow2 and worst > 300.0:
                        # general factor (inputs perturbed by one rounding) + driving force < 0.3% of the pressures: amplification is
                        # not bounded by a fixed power of the cancellation factor (9e-5 observed in the thorough tier); powers of
                        # two scale exactly and are always compared
                        classes.append("scaling-ill-conditioned")
                        tiny = True
                    for i in (0, 1):
                        if tiny:
                            break
                        # un-cancelled scale: feed-side term or (with back pressure) the permeate-side term ~ total flux
                        cond = max(perms[i] * pf[i], abs(j[0]) + abs(j[1])) / max(abs(j[i]), 1e-300)
                        require(relerr(j2[i], k * j[i]) <= tol + 1e-13 * max(cond, 1.0) * end,
                                "permeances x %r: flux %d = %r, expected %r x %r = %r", k, i + 1, j2[i], k, j[i], k * j[i])
                    require(tiny or abs(_comp(j2) - _comp(j)) <= tol + 1e-13 * max(perms[0] * pf[0] / max(abs(j[0]), 1e-300),
                                                                            perms[1] * pf[1] / max(abs(j[1]), 1e-300), 1.0),
                            "permeances x %r changed the permeate composition %r -> %r", k, _comp(j), _comp(j2))
                classes.append("scaling-checked")
            else:
                require(legit_exit_flip(evals, tr2.evals, case["precision"]),
                        "permeances x %r changed the number of iterations (%d -> %d evaluations) although the step size was not at a "
                        "rounding tie with the precision: the stopping decision depends on the permeance scale", k, len(evals), len(tr2.evals))
                classes.append("exit-flip")

    dfs = [abs(j[i] / perms[i]) for i in (0, 1)]
    nontrivial = (mode == "temperature" or (mode == "pressure" and case["perm"]["p"] > 0)) and (traced or not tr.hooked) \
        and all(dfs[i] > 1e-6 * pf[i] for i in (0, 1))
    # no target() on the contraction ratio: it drags the search into 10^4-iteration cases (measured: 12 min for 12 000
    # cases); the generator's near-equilibrium class reaches that region instead.
    tgt = {}
    return {"nontrivial": nontrivial, "classes": classes, "target": tgt}


PARTS = [
    Part("solver", strategy, check, {"quick": 12000, "thorough": 400000}, floor={"quick": 1500, "thorough": 40000},
         shrink={"quick": True, "thorough": True}, max_discard=0.7),
]
