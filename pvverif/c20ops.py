"""Shared-object histories for C20: object construction from plain data and the operation interpreter.
Imported both by the check and by the forkserver that provides fresh-interpreter executions."""
from . import build, procs
from .core import call, is_raised
from .observe import EvaluationCap, Trace, snapshot


class Objects:
    pass


def build_objects(init):
    from pyvaporation.optimizer.optimizer import Measurement, Measurements

    o = Objects()
    o.mix = build.mixture(init["mixture"])
    o.curves = procs.build_curve_set(init["curves"], o.mix)
    o.mem = build.membrane(init["membrane"], o.mix)
    o.mem.diffusion_curve_sets = [o.curves]
    o.pv = build.Pervaporation(membrane=o.mem, mixture=o.mix)
    o.cond = build.conditions(init["cond"])
    prog = init.get("program")
    if prog:
        import math
        import numpy

        t0 = init["cond"]["T"] + prog.get("offset", 0.0)  # a programme need not start at the stated initial temperature
        r = prog["rate"]  # K per hour, small: the programme stays near the initial temperature over the few hours modelled
        if prog["type"] == "polynomial":
            co = [t0, r, -0.05 * r]
        elif prog["type"] == "exponential":
            co = [t0 / math.e, 1.0, r / t0]
        else:
            co = [80.0, math.exp(t0 / 80.0), r / 80.0 * math.exp(t0 / 80.0)]
        o.cond.temperature_program = build.TemperatureProgram(coefficients=numpy.array(co) if prog["as_array"] else co, type=prog["type"])
    o.comps = [build.composition(c["p"], c["basis"]) for c in init["comps"]]
    o.meas = Measurements(data=[Measurement(x=p[0], t=p[1], p=p[2]) for p in init["points"]])
    o.perms = (build.permeance(init["perms"][0]), build.permeance(init["perms"][1]))
    return o


def shared_snapshot(o):
    return snapshot([o.mix, o.curves, o.mem, o.cond, o.comps, o.meas, o.perms])


def globals_snapshot():
    from pyvaporation import Components, Mixtures

    return snapshot([[k, v] for k, v in sorted(vars(Components).items()) if not k.startswith("_")] +
                    [[k, v] for k, v in sorted(vars(Mixtures).items()) if not k.startswith("_")])


def _result(out):
    """Numeric content of a result (comments embed datetime.now() and are excluded)."""
    import attr

    if is_raised(out):
        return ["raised", out.type]
    if attr.has(type(out)) and hasattr(out, "comments"):
        out = attr.evolve(out, comments=None) if type(out).__name__ == "ProcessModel" else _curve_view(out)
    return snapshot(out)


def _curve_view(dc):
    return [dc.feed_temperature, dc.feed_compositions, dc.partial_fluxes, dc.permeances, dc.permeate_temperature, dc.permeate_pressure]


def exec_op(o, op):
    """Executes one modelling call on the shared objects; returns the snapshot of its numeric result."""
    from pyvaporation import Measurements, find_best_fit, fit
    from pyvaporation.mixtures import get_partial_pressures

    name = op["op"]
    pv = o.pv
    comp = o.comps[op.get("comp", 0) % len(o.comps)]
    mdl = op.get("model", "NRTL")
    tp, pp = op.get("Tp"), op.get("pp")
    t = op.get("T", o.cond.initial_feed_temperature)
    prec = op.get("precision", 5e-5)
    try:
        with Trace(pv, cap=60000, keep=False):
            if name == "solver":
                kw = dict(feed_temperature=t, composition=comp, precision=prec, permeate_temperature=tp, permeate_pressure=pp, calculation_type=mdl)
                if op.get("explicit"):
                    kw.update(first_component_permeance=o.perms[0], second_component_permeance=o.perms[1])
                out = call(pv.calculate_partial_fluxes, **kw)
            elif name == "permeate_composition":
                out = call(pv.calculate_permeate_composition, t, comp, prec, tp, pp, mdl)
            elif name == "separation_factor":
                out = call(pv.calculate_separation_factor, t, comp, tp, pp, prec, mdl)
            elif name == "partial_pressures":
                if op.get("other_mixture"):  # the same Composition object used with another (built-in) mixture
                    from pyvaporation import Mixtures

                    other = Mixtures.H2O_iPOH if o.mix is not Mixtures.H2O_iPOH else Mixtures.MeOH_Toluene
                    out = call(get_partial_pressures, t, other, comp, "NRTL")
                else:
                    out = call(get_partial_pressures, t, o.mix, comp, mdl)
            elif name == "ideal_curve":
                out = call(pv.ideal_diffusion_curve, t, list(o.comps), tp, pp, prec, mdl)
            elif name == "nonideal_curve":
                w0 = comp.to_weight(o.mix).p
                delta = (0.95 - w0) / 6 if w0 < 0.5 else -(w0 - 0.05) / 6
                out = call(pv.non_ideal_diffusion_curve, diffusion_curve_set=o.curves, feed_temperature=t, initial_feed_composition=comp,
                           delta_composition=delta, number_of_steps=op["steps"], permeate_temperature=tp, permeate_pressure=pp,
                           initial_permeances=o.perms if op.get("explicit") else None, precision=prec, calculation_type=mdl,
                           n_first=op["n"], n_second=op["n"], m_first=op["m"], m_second=op["m"], include_zero=op.get("include_zero", False))
            elif name == "process":
                kind = op["kind"]
                if kind == "ideal-iso":
                    out = call(pv.ideal_isothermal_process, op["steps"], op["dt"], o.cond, prec, mdl)
                elif kind == "ideal-noniso":
                    out = call(pv.ideal_non_isothermal_process, o.cond, op["steps"], op["dt"], prec, mdl)
                else:
                    fn = pv.non_ideal_isothermal_process if kind == "nonideal-iso" else pv.non_ideal_non_isothermal_process
                    out = call(fn, conditions=o.cond, diffusion_curve_set=o.curves, number_of_steps=op["steps"], delta_hours=op["dt"], precision=prec,
                               calculation_type=mdl, initial_permeances=o.perms if op.get("explicit") else None,
                               n_first=op["n"], m_first=op["m"], n_second=op["n"], m_second=op["m"], include_zero=op.get("include_zero", False))
            elif name == "fit":
                out = call(fit, o.meas, n=op["n"], m=op["m"], include_zero=op.get("include_zero", False), component_index=op.get("ci", 0))
            elif name == "find_best_fit":
                out = call(find_best_fit, o.meas, n=op["n"], m=op["m"], include_zero=op.get("include_zero", False), component_index=op.get("ci", 0))
            elif name == "measurements":
                f = Measurements.from_diffusion_curves_first if op.get("ci", 0) == 0 else Measurements.from_diffusion_curves_second
                out = call(f, o.curves)
            elif name == "curve_metrics":
                dc = o.curves.diffusion_curves[op.get("ci", 0) % len(o.curves.diffusion_curves)]
                out = call(lambda: [dc.permeate_composition, dc.get_separation_factor, dc.get_psi, dc.get_selectivity, dc.get_permeances])
            elif name == "membrane":
                c = o.mix.first_component if op.get("ci", 0) == 0 else o.mix.second_component
                what = op["what"]
                if what == "permeance":
                    out = call(o.mem.get_permeance, t, c)
                elif what == "activation_energy":
                    out = call(o.mem.calculate_activation_energy, c)
                elif what == "selectivity":
                    out = call(o.mem.get_ideal_selectivity, t, o.mix.first_component, o.mix.second_component, op.get("basis", "molar"))
                else:
                    out = call(o.mem.get_estimated_pure_component_flux, t, c, tp, pp)
            else:
                raise AssertionError(name)
    except EvaluationCap:
        return ["raised", "EvaluationCap"]
    return _result(out)


def fresh_execute(init, op):
    """Entry point used in a fresh process: rebuild the arguments and execute only this call."""
    from . import bootstrap

    bootstrap()
    return exec_op(build_objects(init), op)
