"""Hypothesis strategies producing PLAIN-DATA case fragments (see build.py for the object builders).

Everything is built by construction; ranges come from the property quantifiers and from what the
code is documented / observed to accept (DESIGN.md section 3)."""
import math

from hypothesis import strategies as st

BUILTIN_COMPONENTS = ["H2O", "MeOH", "EtOH", "iPOH", "MTBE", "ETBE", "DME", "DMC",
                      "CycloHexane", "Benzene", "Toluene", "AceticAcid"]
BUILTIN_MIXTURES = ["H2O_MeOH", "H2O_EtOH", "H2O_iPOH", "H2O_AceticAcid", "EtOH_ETBE",
                    "MeOH_Toluene", "MeOH_MTBE", "MeOH_DMC"]
UNITS = ["kg/(m2*h*kPa)", "SI", "GPU"]
LN10 = math.log(10.0)


def loguniform(lo, hi):
    return st.floats(math.log(lo), math.log(hi), allow_nan=False).map(math.exp)


def uniform(lo, hi):
    return st.floats(lo, hi, allow_nan=False, allow_infinity=False)


def signed_log(lo, hi):
    return st.tuples(st.sampled_from([-1.0, 1.0]), loguniform(lo, hi)).map(lambda t: t[0] * t[1])


# ---------------------------------------------------------------------------------- components
@st.composite
def vp_constants(draw):
    """Antoine log10 P = a + b/(T+c) or Frost ln P = a + b/T + c/T^2 with Psat(350 K) in 0.1..1000 kPa
    and a positive latent heat for every T >= 120 K."""
    kind = draw(st.sampled_from(["antoine", "frost"]))
    logp = draw(uniform(-1.0, 3.0))  # log10 of Psat at 350 K
    if kind == "antoine":
        b = draw(uniform(-3000.0, -600.0))
        c = draw(uniform(-60.0, 30.0))
        a = logp - b / (350.0 + c)
    else:
        b = draw(uniform(-8000.0, -1000.0))
        c = draw(uniform(-3.0e5, 5.0e4))
        a = logp * LN10 - b / 350.0 - c / 350.0**2
    return {"type": kind, "a": a, "b": b, "c": c}


@st.composite
def cp_constants(draw):
    """Cubic Cp(T) = c0 (1 + e1 u + e2 u^2 + e3 u^3), u = (T-350)/150, sum|e| <= 0.6: positive on 200..500 K."""
    c0 = draw(loguniform(20.0, 400.0))
    e = [draw(uniform(-0.2, 0.2)) for _ in range(3)]
    if draw(st.booleans()):
        e[2] = 0.0
    # expand in powers of T
    s = 1.0 / 150.0
    t0 = 350.0
    # u = s*(T - t0)
    a = c0 * (1 - e[0] * s * t0 + e[1] * (s * t0) ** 2 - e[2] * (s * t0) ** 3)
    b = c0 * (e[0] * s - 2 * e[1] * s * s * t0 + 3 * e[2] * s**3 * t0**2)
    c = c0 * (e[1] * s * s - 3 * e[2] * s**3 * t0)
    d = c0 * (e[2] * s**3)
    return [a, b, c, d]


@st.composite
def synthetic_component(draw, name="S1", with_uniquac=True, mw=None):
    uq = None
    if with_uniquac:
        r = draw(uniform(0.5, 6.0))
        q = draw(uniform(0.5, 5.0))
        qi = draw(st.one_of(st.none(), uniform(0.5, 5.0)))
        uq = {"r": r, "q": q, "qi": qi}
    return {
        "name": name,
        "mw": mw if mw is not None else draw(loguniform(10.0, 500.0)),
        "vp": draw(vp_constants()),
        "cp": draw(cp_constants()),
        "uq": uq,
    }


def component(name="S1"):
    return st.one_of(st.sampled_from(BUILTIN_COMPONENTS).map(lambda n: {"builtin": n}), synthetic_component(name))


# ------------------------------------------------------------------------------------ mixtures
@st.composite
def nrtl_params(draw, family=None):
    family = family or draw(st.sampled_from(["general", "general", "general", "zero", "tempindep"]))
    if family == "zero":
        return {"g12": 0.0, "g21": 0.0, "alpha12": draw(uniform(0.0, 0.7)),
                "alpha21": draw(st.one_of(st.none(), uniform(0.0, 0.7))), "a12": 0.0, "a21": 0.0}
    g12 = draw(uniform(-12000.0, 12000.0))
    g21 = draw(uniform(-12000.0, 12000.0))
    alpha12 = draw(uniform(0.0, 0.7))
    alpha21 = draw(st.one_of(st.none(), uniform(0.0, 0.7)))
    if family == "tempindep" or draw(st.booleans()):
        a12 = draw(uniform(-3.0, 3.0))
        a21 = draw(uniform(-3.0, 3.0))
    else:
        a12 = a21 = 0.0
    return {"g12": g12, "g21": g21, "alpha12": alpha12, "alpha21": alpha21, "a12": a12, "a21": a21}


@st.composite
def uniquac_params(draw, family=None):
    family = family or draw(st.sampled_from(["general", "general", "general", "symmetric"]))
    a12 = draw(uniform(-500.0, 500.0))
    b12 = draw(uniform(-1.0e4, 1.0e4))
    if family == "symmetric":  # tau12 == tau21
        a21, b21 = a12, b12
    else:
        a21 = draw(uniform(-500.0, 500.0))
        b21 = draw(uniform(-1.0e4, 1.0e4))
    z = draw(st.integers(6, 13))
    return {"alpha_12": a12, "alpha_21": a21, "beta_12": b12, "beta_21": b21, "z": z}


@st.composite
def synthetic_mixture(draw, models=("NRTL", "UNIQUAC"), nrtl_family=None, uq_family=None, distinct_mw=False):
    need_uq = "UNIQUAC" in models
    c1 = draw(st.one_of(st.sampled_from(BUILTIN_COMPONENTS).map(lambda n: {"builtin": n}),
                        synthetic_component("S1", with_uniquac=True)))
    c2 = draw(st.one_of(st.sampled_from(BUILTIN_COMPONENTS).map(lambda n: {"builtin": n}),
                        synthetic_component("S2", with_uniquac=True)))
    no_uq = {"DME", "CycloHexane", "Benzene"}
    if need_uq:
        if c1.get("builtin") in no_uq:
            c1 = {"builtin": "H2O"}
        if c2.get("builtin") in no_uq:
            c2 = {"builtin": "EtOH"}
    if "builtin" in c1 and c1 == c2:
        c2 = {"builtin": "MeOH" if c1["builtin"] != "MeOH" else "H2O"}
    return {
        "name": "SYN",
        "c1": c1,
        "c2": c2,
        "nrtl": draw(nrtl_params(nrtl_family)) if "NRTL" in models else None,
        "uq": draw(uniquac_params(uq_family)) if need_uq else None,
    }


def mixture(models=("NRTL", "UNIQUAC"), builtin_share=0.5, nrtl_family=None, uq_family=None):
    """Built-in (all 8 carry both parameter sets) or synthetic mixture carrying every model in `models`."""
    b = st.sampled_from(BUILTIN_MIXTURES).map(lambda n: {"builtin": n})
    s = synthetic_mixture(models, nrtl_family, uq_family)
    if builtin_share <= 0:
        return s
    if builtin_share >= 1:
        return b
    return st.one_of(b, s)


model = st.sampled_from(["NRTL", "UNIQUAC"])


# ------------------------------------------------------------------------------------ feed state
def fraction():
    """A fraction strictly inside (0,1): uniform, near either end, or log-uniform."""
    return st.one_of(
        uniform(0.02, 0.98),
        uniform(0.02, 0.98),
        loguniform(1e-6, 1e-2),
        loguniform(1e-6, 1e-2).map(lambda e: 1.0 - e),
        loguniform(1e-3, 0.5),
    )


def mid_fraction():
    return uniform(0.03, 0.97)


feed_temperature = uniform(273.0, 400.0)
basis = st.sampled_from(["weight", "molar"])
precision = loguniform(1e-8, 1e-3)
permeance_value = loguniform(1e-6, 1.0)


@st.composite
def permeate(draw, t_feed, modes=("vacuum", "temperature", "pressure"), t_low=120.0):
    """Permeate condition {"mode", "T", "p"}; temperature mode: 30% within 5 K below the feed temperature."""
    mode = draw(st.sampled_from(list(modes)))
    if mode == "vacuum":
        return {"mode": mode, "T": None, "p": None}
    if mode == "temperature":
        if draw(st.integers(0, 9)) < 3:
            t = t_feed - draw(uniform(0.0, 5.0))
        else:
            t = draw(uniform(t_low, t_feed))
        return {"mode": mode, "T": max(t_low, min(t, t_feed)), "p": None}
    # numeric TYPE is part of the input domain: a pressure may be given as a Python int (0, 2, 50 kPa) as well as a float
    p = draw(st.one_of(st.just(0.0), loguniform(1e-3, 100.0), loguniform(1e-3, 100.0), loguniform(1e-3, 100.0),
                       st.sampled_from([0, 1, 2, 3, 5, 10, 50])))
    return {"mode": mode, "T": None, "p": p}


# ------------------------------------------------------------------------------------ membranes
@st.composite
def experiments(draw, n_max=6, units=("kg/(m2*h*kPa)",), exact_arrhenius=None, t_lo=273.0, t_hi=400.0):
    """1..n_max experiments of ONE component at distinct temperatures (gap >= 0.5 K), in any order."""
    n = draw(st.integers(1, n_max))
    # distinct temperatures by construction: sorted gaps
    span = (t_hi - t_lo)
    raw = sorted(draw(st.lists(uniform(0.0, 1.0), min_size=n, max_size=n)))
    temps = []
    for i, u in enumerate(raw):
        t = t_lo + u * (span - 0.5 * (n - 1)) + 0.5 * i
        temps.append(t)
    order = draw(st.permutations(list(range(n))))
    unit = draw(st.sampled_from(list(units)))
    stated = draw(st.sampled_from(["all", "none", "mixed"]))
    exact = draw(st.booleans()) if exact_arrhenius is None else exact_arrhenius
    ea_true = draw(uniform(-60000.0, 120000.0))
    p_ref = draw(loguniform(1e-6, 1.0))
    t_ref = draw(st.sampled_from(temps))
    exps = []
    for i in order:
        t = temps[i]
        if exact:
            val = p_ref * math.exp(-ea_true / 8.314462 * (1.0 / t - 1.0 / t_ref))
            val = min(max(val, 1e-300), 1e300)
        else:
            # Arrhenius line + bounded noise, so that the regressed activation energy stays within ~30 kJ/mol of Ea_true
            # (the property quantifies over activation energies -60..120 kJ/mol, stated or unstated)
            spread = (1.0 / min(temps) - 1.0 / max(temps)) if n > 1 else 1.0
            amp = min(1.0, 1800.0 * spread)
            val = p_ref * math.exp(-ea_true / 8.314462 * (1.0 / t - 1.0 / t_ref) + amp * draw(uniform(-1.0, 1.0)))
            val = min(max(val, 1e-300), 1e300)
        if stated == "all":
            ea = ea_true if exact else draw(uniform(-60000.0, 120000.0))
        elif stated == "none":
            ea = None
        else:
            ea = draw(st.one_of(st.none(), uniform(-60000.0, 120000.0)))
            if exact and ea is not None:
                ea = ea_true
        exps.append({"T": t, "value": val, "units": unit, "Ea": ea})
    if n == 1 and exps[0]["Ea"] is None:
        exps[0]["Ea"] = ea_true  # a single experiment needs a stated activation energy (C19 tests the rejection)
    return {"exps": exps, "exact": exact, "Ea_true": ea_true}


@st.composite
def membrane(draw, n_max=4, units=("kg/(m2*h*kPa)",)):
    e1 = draw(experiments(n_max, units))
    e2 = draw(experiments(n_max, units))
    return {"name": "M", "e1": e1["exps"], "e2": e2["exps"], "interleave": draw(st.booleans())}


def simple_membrane(p1, p2, t=330.0, ea1=20000.0, ea2=30000.0):
    kg = "kg/(m2*h*kPa)"
    return {"name": "M", "e1": [{"T": t, "value": p1, "units": kg, "Ea": ea1}],
            "e2": [{"T": t, "value": p2, "units": kg, "Ea": ea2}]}


# ---------------------------------------------------------------------------- temperature programmes
@st.composite
def temperature_program(draw, t_start, total_hours):
    """A programme that stays inside 273..400 K on [0, total_hours] and starts near t_start.
    Conventions read from conditions.py: polynomial sum c_i x^i; exponential c0*exp(sum_{i>=1} c_i x^(i-1));
    logarithmic c0*ln(sum_{i>=1} c_i x^(i-1))."""
    kind = draw(st.sampled_from(["polynomial", "exponential", "logarithmic"]))
    t_end = draw(uniform(273.0, 400.0))
    h = max(total_hours, 1e-300)
    if kind == "polynomial":
        deg = draw(st.integers(0, 2))
        if deg == 0:
            coeffs = [t_start]
        elif deg == 1:
            coeffs = [t_start, (t_end - t_start) / h]
        else:
            # quadratic through (0,t_start),(h,t_end) with mid-point inside the hull (monotone-ish)
            w = draw(uniform(-0.4, 0.4))
            c2 = w * (t_end - t_start) / (h * h)
            c1 = (t_end - t_start) / h - c2 * h
            coeffs = [t_start, c1, c2]
    elif kind == "exponential":
        # c0*exp(c1 + c2 t): c0*exp(c1) = t_start, rate from the end point
        c1 = draw(uniform(-1.0, 1.0))
        c0 = t_start / math.exp(c1)
        c2 = math.log(t_end / t_start) / h
        coeffs = [c0, c1, c2]
    else:
        # c0*ln(c1 + c2 t)
        c0 = draw(uniform(40.0, 120.0))
        c1 = math.exp(t_start / c0)
        c2 = (math.exp(t_end / c0) - c1) / h
        coeffs = [c0, c1, c2]
    return {"type": kind, "coefficients": coeffs}


# ------------------------------------------------------------------------------------ solver cases
@st.composite
def solver_case(draw, models=("NRTL", "UNIQUAC"), modes=("vacuum", "temperature", "pressure"), t_low=120.0,
                builtin_share=0.5, fractions=None, uq_family=None, nrtl_family=None):
    """One flux-solver question in plain data: mixture, activity model, feed state, permeate condition,
    explicit permeances (kg/(m2 h kPa)) and precision."""
    mdl = draw(st.sampled_from(list(models)))
    mix = draw(mixture((mdl,), builtin_share, nrtl_family=nrtl_family, uq_family=uq_family))
    t = draw(feed_temperature)
    return {
        "mixture": mix,
        "model": mdl,
        "T": t,
        "x": draw(fractions if fractions is not None else fraction()),
        "basis": draw(basis),
        "perm": draw(permeate(t, modes, t_low)),
        "p1": draw(permeance_value),
        "p2": draw(permeance_value),
        "precision": draw(precision),
    }
