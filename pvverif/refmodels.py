"""Harness-side reference formulas, written from the property statements and the literature
(plain `math`, no code shared with the package)."""
import math

R = 8.314462  # the package's documented gas constant, J/(mol K)
GPU_SI = 3.35e-10


# ------------------------------------------------------------------ composition conversion
def to_molar(w, m1, m2):
    return (w / m1) / (w / m1 + (1.0 - w) / m2)


def to_weight(x, m1, m2):
    return (x * m1) / (x * m1 + (1.0 - x) * m2)


# ------------------------------------------------------------------ units
def unit_factor_to_si(unit, mw=None):
    """value[unit] * factor = value[SI mol/(m2 s Pa)]"""
    if unit == "SI":
        return 1.0
    if unit == "GPU":
        return GPU_SI
    if unit == "kg/(m2*h*kPa)":
        return 1.0 / (3600.0 * mw)
    raise KeyError(unit)


def convert_units(value, frm, to, mw=None):
    return value * unit_factor_to_si(frm, mw) / unit_factor_to_si(to, mw)


# ------------------------------------------------------------------ pure-component data (plain spec)
def psat(vp, t):
    if vp["type"] == "antoine":
        return 10.0 ** (vp["a"] + vp["b"] / (t + vp["c"]))
    return math.exp(vp["a"] + vp["b"] / t + vp["c"] / t**2)


def ln_psat(vp, t):
    if vp["type"] == "antoine":
        return math.log(10.0) * (vp["a"] + vp["b"] / (t + vp["c"]))
    return vp["a"] + vp["b"] / t + vp["c"] / t**2


def cp(c, t):
    return c[0] + c[1] * t + c[2] * t * t + c[3] * t**3


# ------------------------------------------------------------------ NRTL (Renon-Prausnitz, two alphas allowed)
def nrtl_gammas(x1, t, p):
    x2 = 1.0 - x1
    tau12 = p["a12"] + p["g12"] / (R * t)
    tau21 = p["a21"] + p["g21"] / (R * t)
    al12 = p["alpha12"]
    al21 = p["alpha21"] if p.get("alpha21") is not None else al12
    g12 = math.exp(-al12 * tau12)
    g21 = math.exp(-al21 * tau21)
    ln1 = x2 * x2 * (tau21 * (g21 / (x1 + x2 * g21)) ** 2 + tau12 * g12 / (x2 + x1 * g12) ** 2)
    ln2 = x1 * x1 * (tau12 * (g12 / (x2 + x1 * g12)) ** 2 + tau21 * g21 / (x1 + x2 * g21) ** 2)
    return math.exp(ln1), math.exp(ln2)


# ------------------------------------------------------------------ UNIQUAC (Anderson-Prausnitz 1978 form)
def uniquac_ln_gammas(x1, t, par, c1, c2, slip=False):
    """ln gamma_1, ln gamma_2 of the modified UNIQUAC equation (q for the combinatorial part, q' for
    the residual part), with tau_ij = exp(-(alpha_ij + beta_ij/T)/T) as the package defines it.

    slip=False: the published equation (relabelling-symmetric, Gibbs-Duhem consistent).
    slip=True : the same with the residual bracket of gamma_2 written as
                tau12/(th2'+th1' tau21) - tau12/(th1'+th2' tau12)   (mixture.py gamma_2, finding D1)
                instead of
                tau12/(th2'+th1' tau12) - tau21/(th1'+th2' tau21)."""
    x2 = 1.0 - x1
    r1, q1, qp1 = c1["r"], c1["q"], c1["qi"] if c1.get("qi") is not None else c1["q"]
    r2, q2, qp2 = c2["r"], c2["q"], c2["qi"] if c2.get("qi") is not None else c2["q"]
    z = par["z"]
    phi1 = x1 * r1 / (x1 * r1 + x2 * r2)
    phi2 = x2 * r2 / (x1 * r1 + x2 * r2)
    th1 = x1 * q1 / (x1 * q1 + x2 * q2)
    th2 = x2 * q2 / (x1 * q1 + x2 * q2)
    tp1 = x1 * qp1 / (x1 * qp1 + x2 * qp2)
    tp2 = x2 * qp2 / (x1 * qp1 + x2 * qp2)
    l1 = z / 2.0 * (r1 - q1) - (r1 - 1.0)
    l2 = z / 2.0 * (r2 - q2) - (r2 - 1.0)
    tau12 = math.exp(-(par["alpha_12"] + par["beta_12"] / t) / t)
    tau21 = math.exp(-(par["alpha_21"] + par["beta_21"] / t) / t)
    ln1 = (math.log(phi1 / x1) + z / 2.0 * q1 * math.log(th1 / phi1) + phi2 * (l1 - r1 / r2 * l2)
           - qp1 * math.log(tp1 + tp2 * tau21)
           + tp2 * qp1 * (tau21 / (tp1 + tp2 * tau21) - tau12 / (tp2 + tp1 * tau12)))
    if slip:
        bracket2 = tau12 / (tp2 + tp1 * tau21) - tau12 / (tp1 + tp2 * tau12)
    else:
        bracket2 = tau12 / (tp2 + tp1 * tau12) - tau21 / (tp1 + tp2 * tau21)
    ln2 = (math.log(phi2 / x2) + z / 2.0 * q2 * math.log(th2 / phi2) + phi1 * (l2 - r2 / r1 * l1)
           - qp2 * math.log(tp2 + tp1 * tau12)
           + tp1 * qp2 * bracket2)
    return ln1, ln2


# ------------------------------------------------------------------ numerics
def stencil5(f, x, h):
    """Five-point central first derivative."""
    return (f(x - 2 * h) - 8 * f(x - h) + 8 * f(x + h) - f(x + 2 * h)) / (12 * h)


def gauss2(f, a, b):
    """Two-point Gauss-Legendre quadrature on [a,b]: exact for cubics."""
    m, h = 0.5 * (a + b), 0.5 * (b - a)
    d = h / math.sqrt(3.0)
    return h * (f(m - d) + f(m + d))
