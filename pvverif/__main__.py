"""CLI: python -m pvverif check <ID> [--tier quick|thorough] | replay <ID> <file>"""
import argparse
import os
import sys

from . import runner


def main(argv=None):
    ap = argparse.ArgumentParser(prog="pvverif")
    ap.add_argument("prop")
    ap.add_argument("--tier", default=os.environ.get("VERIF_TIER", "quick"), choices=["quick", "thorough"])
    ap.add_argument("--replay", default=None)
    ap.add_argument("--seed", type=int, default=None)
    a = ap.parse_args(argv)
    seed = a.seed if a.seed is not None else int(os.environ.get("VERIF_SEED", "1") or 1)
    try:
        if a.replay:
            return runner.replay(a.prop.upper(), a.replay)
        return runner.check(a.prop.upper(), a.tier, seed)
    except SystemExit:
        raise
    except BaseException:
        import traceback

        traceback.print_exc()
        print("HARNESS-ERROR: uncaught exception in the runner", file=sys.stderr)
        return runner.EXIT_HARNESS


if __name__ == "__main__":
    sys.exit(main())
