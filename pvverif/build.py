"""Builders: plain-data case fragments -> objects of the package under test (imported lazily
from the working tree)."""
from . import bootstrap

bootstrap()

import pyvaporation as pv  # noqa: E402
from pyvaporation import (  # noqa: E402
    Component, Components, Composition, Conditions, DiffusionCurveSet,
    HeatCapacityConstants, IdealExperiment, IdealExperiments, Membrane, Mixture, Mixtures,
    NRTLParameters, Permeance, Pervaporation, TemperatureProgram, UNIQUACConstants,
    UNIQUACParameters, VaporPressureConstants,
)

from pyvaporation import DiffusionCurve as _DiffusionCurve  # noqa: E402

KG = "kg/(m2*h*kPa)"
CURVE_READS = ("permeate_composition", "get_separation_factor", "get_psi", "get_selectivity", "get_permeances")


def read_curve(curve):
    """Reads every derived quantity of a curve once (they are read-only views: a curve read before is the same curve)."""
    for name in CURVE_READS:
        try:
            getattr(curve, name)
            len(curve)
        except Exception:
            pass
    return curve


def curve_from_frame(frame):
    return _DiffusionCurve.from_frame(frame)


def DiffusionCurve(**kwargs):
    """Constructs a DiffusionCurve; for every second feed temperature (lowest mantissa bit - deterministic per case) the curve's
    derived quantities are read once before it is handed to the check, as a user who looked at the curve first would have."""
    import struct

    curve = _DiffusionCurve(**kwargs)
    t = kwargs.get("feed_temperature")
    try:
        if struct.pack("<d", float(t))[0] & 1:
            read_curve(curve)
    except (TypeError, ValueError):
        pass
    return curve


def fresh(s):
    """A new, non-interned string object equal to s.  Every string handed to the package (bases, units, equation and model
    names) goes through this: code that compares strings with `is` instead of `==` works only for interned literals."""
    return s if s is None else "".join(list(s))


def component(spec):
    if "builtin" in spec:
        return getattr(Components, spec["builtin"])
    uq = spec.get("uq")
    return Component(
        name=spec["name"],
        molecular_weight=spec["mw"],
        vapour_pressure_constants=VaporPressureConstants(
            a=spec["vp"]["a"], b=spec["vp"]["b"], c=spec["vp"]["c"], type=fresh(spec["vp"]["type"])),
        heat_capacity_constants=HeatCapacityConstants(*spec["cp"]),
        uniquac_constants=None if uq is None else UNIQUACConstants(
            r=uq["r"], q_geometric=uq["q"], q_interaction=uq.get("qi")),
    )


def nrtl(spec):
    if spec is None:
        return None
    return NRTLParameters(g12=spec["g12"], g21=spec["g21"], alpha12=spec["alpha12"],
                          alpha21=spec.get("alpha21"), a12=spec.get("a12", 0), a21=spec.get("a21", 0))


def uniquac(spec):
    if spec is None:
        return None
    return UNIQUACParameters(alpha_12=spec["alpha_12"], alpha_21=spec["alpha_21"],
                             beta_12=spec["beta_12"], beta_21=spec["beta_21"], z=spec["z"])


def mixture(spec):
    if "builtin" in spec:
        return getattr(Mixtures, spec["builtin"])
    return Mixture(name=spec.get("name", "SYN"), first_component=component(spec["c1"]),
                   second_component=component(spec["c2"]), nrtl_params=nrtl(spec.get("nrtl")),
                   uniquac_params=uniquac(spec.get("uq")))


def composition(p, basis):
    return Composition(p=p, type=fresh(basis))


def permeance(value, units=KG):
    return Permeance(value=value, units=fresh(units))


def membrane(spec, mix, path=None):
    exps = []
    for comp, key in ((mix.first_component, "e1"), (mix.second_component, "e2")):
        for i, e in enumerate(spec.get(key) or []):
            exps.append(IdealExperiment(name="%s-%d" % (key, i), temperature=e["T"], component=comp,
                                        permeance=Permeance(value=e["value"], units=fresh(e.get("units", KG))),
                                        activation_energy=e.get("Ea")))
    if spec.get("interleave"):  # experiments listed by temperature, not component by component
        exps.sort(key=lambda e: (e.temperature, e.name))
    return Membrane(name=spec.get("name", "M"), ideal_experiments=IdealExperiments(experiments=exps), path=path)


def program(spec):
    if spec is None:
        return None
    return TemperatureProgram(coefficients=list(spec["coefficients"]), type=fresh(spec["type"]))


def conditions(spec):
    return Conditions(
        membrane_area=spec["area"],
        initial_feed_temperature=spec["T"],
        initial_feed_amount=spec["amount"],
        initial_feed_composition=Composition(p=spec["x"], type=fresh(spec["basis"])),
        permeate_temperature=spec.get("Tp"),
        permeate_pressure=spec.get("pp"),
        temperature_program=program(spec.get("program")),
    )


def perm_kwargs(perm):
    """Permeate condition -> keyword arguments of the solver family."""
    return {"permeate_temperature": perm.get("T"), "permeate_pressure": perm.get("p")}
