"""Sharded Hypothesis runner: jobs -> aggregation -> evidence, exit code, replay file."""
import collections
import concurrent.futures
import importlib
import json
import math
import multiprocessing
import os
import sys
import time
import traceback

from . import VERIF_ROOT, bootstrap
from .core import Discard, Violation, canon, case_hash

N_SAMPLES = 6
# evidence/ and replays/ live in /verif; the sensitivity self-test redirects them (PVVERIF_OUT)
OUT_ROOT = os.environ.get("PVVERIF_OUT", VERIF_ROOT)
EXIT_OK, EXIT_VIOLATION, EXIT_HARNESS = 0, 1, 2


def load_prop(prop_id):
    bootstrap()
    return importlib.import_module("pvverif.props.%s" % prop_id.lower())


def derive_seed(seed, part_idx, shard):
    return (seed * 1000003 + part_idx * 10007 + shard * 101 + 17) % (2**63)


class Stats:
    def __init__(self):
        self.evals = 0
        self.nontrivial = set()
        self.classes = collections.Counter()
        self.discards = collections.Counter()
        self.known = collections.Counter()
        self.targets = {}
        self.samples = []
        self.failure = None

    def record(self, case, out):
        self.evals += 1
        out = out or {}
        for c in out.get("classes", ()):
            self.classes[c] += 1
        for k in out.get("known", ()):
            self.known[k] += 1
        for k, v in (out.get("target") or {}).items():
            if v is not None and math.isfinite(v) and v > self.targets.get(k, -math.inf):
                self.targets[k] = v
        if out.get("nontrivial"):
            h = case_hash(case)
            if h not in self.nontrivial:
                self.nontrivial.add(h)
                if len(self.samples) < N_SAMPLES:
                    self.samples.append(json.loads(canon(case)))

    def as_dict(self):
        return {
            "evals": self.evals,
            "nontrivial": sorted(self.nontrivial),
            "classes": dict(self.classes),
            "discards": dict(self.discards),
            "known": dict(self.known),
            "targets": self.targets,
            "samples": self.samples,
            "failure": self.failure,
        }


def run_one(part, case, stats, use_target=False):
    """Execute the oracle on one case, updating stats.  Violation propagates."""
    try:
        out = part.check(case)
    except Discard as d:
        stats.evals += 1
        stats.discards[d.reason] += 1
        return None
    except Violation as v:
        stats.evals += 1
        stats.failure = {"case": json.loads(canon(case)), "message": str(v), "part": part.name}
        raise
    stats.record(case, out)
    if use_target and out and out.get("target"):
        import hypothesis

        for k, v in out["target"].items():
            if v is not None and math.isfinite(v):
                hypothesis.target(float(v), label=k)
    return out


def load_corpus(prop_id, part_name):
    """Saved cases (shrunk failures of past findings, reverted fixes and seeded changes) under corpus/<ID>/*.json in
    replay-file format; they run first, in shard 0, through the same oracle as generated cases."""
    out = []
    if os.environ.get("PVVERIF_NO_CORPUS"):  # sensitivity experiments: detection by generation only
        return out
    d = os.path.join(VERIF_ROOT, "corpus", prop_id)
    if os.path.isdir(d):
        for f in sorted(os.listdir(d)):
            if not f.endswith(".json"):
                continue
            try:
                body = json.load(open(os.path.join(d, f)))
            except ValueError:
                continue
            if isinstance(body, dict) and body.get("part") == part_name and "case" in body:
                out.append(body["case"])
    return out


def run_job(job):
    """Executed in a worker process."""
    prop_id, part_idx, shard, n, seed, tier = job
    t0 = time.time()
    stats = Stats()
    try:
        # the package prints advice ("you may be over-fitting") on stdout; workers report through their return value only
        sys.stdout = open(os.devnull, "w")
        mod = load_prop(prop_id)
        part = mod.PARTS[part_idx]
        # every worker starts with a prelude of unrelated public calls, several of them documented to fail: nothing they leave
        # behind (disabled validators, numpy error modes, caches) may influence the cases that follow
        from .procs import failed_calls_once

        failed_calls_once()
        import hypothesis
        from hypothesis import HealthCheck, Phase, given, settings

        # Phase.target is deliberately NOT used: Hypothesis' hill-climbing optimiser (find_integer probing on float
        # nodes, served from its test-function cache, hence not counted against max_examples) stalled single shards
        # for > 6 minutes (C04 seed 1 shard 13; C02 12 min).  Thin regions are reached by generator classes instead;
        # the "target" values returned by the oracles are only aggregated as max statistics in the evidence.
        phases = [Phase.explicit, Phase.generate]
        if part.shrink.get(tier, True):
            phases.append(Phase.shrink)
        sett = settings(
            max_examples=max(1, n),
            database=None,
            deadline=None,
            derandomize=False,
            report_multiple_bugs=False,
            suppress_health_check=list(HealthCheck),
            phases=phases,
            stateful_step_count=part.steps.get(tier, 12),
            print_blob=False,
        )
        try:
            if shard == 0:
                for case in list(part.corpus) + load_corpus(prop_id, part.name):
                    run_one(part, case, stats)
            if part.machine is not None:
                from hypothesis.stateful import run_state_machine_as_test

                cls = part.machine(tier, stats)
                cls = hypothesis.seed(seed)(cls)
                run_state_machine_as_test(cls, settings=sett)
            else:
                @hypothesis.seed(seed)
                @sett
                @given(part.strategy(tier))
                def test(case):
                    run_one(part, case, stats, use_target=False)

                test()
        except Violation:
            pass  # stats.failure holds the last (minimal) failing case
        res = stats.as_dict()
        res["error"] = None
    except BaseException:  # harness error: reported, never a VIOLATION
        res = stats.as_dict()
        res["error"] = traceback.format_exc()
    res.update(job=list(job), wall=time.time() - t0)
    return res


def plan_jobs(mod, tier, seed, nproc):
    jobs = []
    for pi, part in enumerate(mod.PARTS):
        total = part.budget[tier]
        per = getattr(part, "min_per_shard", 4)
        shards = max(1, min(nproc, total // per))
        base, extra = divmod(total, shards)
        for s in range(shards):
            n = base + (1 if s < extra else 0)
            jobs.append((mod.ID, pi, s, n, derive_seed(seed, pi, s), tier))
    return jobs


def write_replay(prop_id, failure, seed, tier):
    d = os.path.join(OUT_ROOT, "replays")
    os.makedirs(d, exist_ok=True)
    body = {"property": prop_id, "part": failure["part"], "case": failure["case"],
            "message": failure["message"], "seed": seed, "tier": tier}
    path = os.path.join(d, "%s-%s.json" % (prop_id, case_hash(body["case"])))
    with open(path, "w") as f:
        json.dump(body, f, indent=1, sort_keys=True)
    return path


def check(prop_id, tier, seed, nproc=None, timeout=None):
    t0 = time.time()
    nproc = nproc or int(os.environ.get("PVVERIF_NPROC", os.cpu_count() or 4))
    mod = load_prop(prop_id)
    from . import findings

    # deterministic probes of the recorded known findings (printed only while they still fail)
    known_lines = []
    for fid, fn in getattr(mod, "KNOWN_PROBES", {}).items():
        entry = findings.entry(fid)
        if entry is None or entry.get("status") != "known":
            continue
        if fn():
            known_lines.append("KNOWN-FINDING: property=%s %s: %s" % (mod.ID, fid, entry["what"]))
    for line in known_lines:
        print(line, flush=True)

    jobs = plan_jobs(mod, tier, seed, nproc)
    timeout = timeout or float(os.environ.get("PVVERIF_TIMEOUT", 1500 if tier == "quick" else 6 * 3600))
    ctx = multiprocessing.get_context("fork")
    results, errors = [], []
    pool = concurrent.futures.ProcessPoolExecutor(max_workers=nproc, mp_context=ctx)
    try:
        futs = [pool.submit(run_job, j) for j in jobs]
        done, not_done = concurrent.futures.wait(futs, timeout=timeout)
        for f in futs:
            if f in done:
                try:
                    results.append(f.result())
                except BaseException:
                    errors.append(traceback.format_exc())
        if not_done:
            errors.append("watchdog: %d job(s) still running after %.0f s (inconclusive)" % (len(not_done), timeout))
    finally:
        if errors and any("watchdog" in e for e in errors):
            for p in list(getattr(pool, "_processes", {}).values()):  # stuck workers: kill, do not wait
                try:
                    p.kill()
                except Exception:
                    pass
            pool.shutdown(wait=False, cancel_futures=True)
        else:
            pool.shutdown(wait=True)

    for r in results:
        if r.get("error"):
            errors.append("job %s: %s" % (r["job"], r["error"]))

    # aggregate
    per_part = {}
    failure = None
    for r in sorted(results, key=lambda r: (r["job"][1], r["job"][2])):
        p = mod.PARTS[r["job"][1]].name
        a = per_part.setdefault(p, {"evals": 0, "nontrivial": set(), "classes": collections.Counter(),
                                    "discards": collections.Counter(), "known": collections.Counter(),
                                    "targets": {}, "samples": [], "shards": 0, "seeds": []})
        a["evals"] += r["evals"]
        a["nontrivial"].update(r["nontrivial"])
        a["classes"].update(r["classes"])
        a["discards"].update(r["discards"])
        a["known"].update(r["known"])
        for k, v in r["targets"].items():
            a["targets"][k] = max(v, a["targets"].get(k, -math.inf))
        if len(a["samples"]) < N_SAMPLES:
            a["samples"].extend(r["samples"][: max(1, N_SAMPLES // 3)])
        a["shards"] += 1
        a["seeds"].append(r["job"][4])
        if failure is None and r["failure"]:
            failure = r["failure"]

    evals = sum(a["evals"] for a in per_part.values())
    nontriv = sum(len(a["nontrivial"]) for a in per_part.values())
    samples = []
    for pname, a in per_part.items():
        for s in a["samples"][:N_SAMPLES]:
            samples.append({"part": pname, "case": s})
    problems = []
    problems_soft = []
    for part in mod.PARTS:
        a = per_part.get(part.name)
        if a is None:
            continue
        nd = sum(a["discards"].values())
        unobservable = sum(v for k, v in a["discards"].items() if k.startswith("unobservable"))
        if unobservable and unobservable >= 0.9 * max(a["evals"], 1):
            # the part's observation hook does not exist in this tree (renamed internals): reported, not an error
            problems_soft.append("part %s: not observable in this tree (%d cases)" % (part.name, unobservable))
            continue
        if failure is None and not errors:
            floor = part.floor.get(tier, 2)
            if tier == "thorough":  # never demand a higher non-trivial RATE than half of what the quick floor implies
                floor = min(floor, int(0.5 * part.floor.get("quick", 2) * part.budget["thorough"] / max(part.budget["quick"], 1)))
            if len(a["nontrivial"]) < floor:
                problems.append("part %s: only %d non-trivial cases (floor %d) - generator collapsed"
                                % (part.name, len(a["nontrivial"]), floor))
            if a["evals"] and nd / a["evals"] > part.max_discard:
                problems.append("part %s: discard rate %.2f above ceiling %.2f" % (part.name, nd / a["evals"], part.max_discard))

    evidence = {
        "property_id": mod.ID,
        "tier": tier,
        "seed": seed,
        "level": "exploration",
        "coverage": {
            "evaluations": evals,
            "distinct_nontrivial": nontriv,
            "rule": mod.RULE,
            "samples": samples[: 3 * N_SAMPLES],
            "exhaustive": False,
            "parts": {
                p: {
                    "evaluations": a["evals"],
                    "distinct_nontrivial": len(a["nontrivial"]),
                    "classes": dict(sorted(a["classes"].items())),
                    "discards": dict(sorted(a["discards"].items())),
                    "known_finding_hits": dict(sorted(a["known"].items())),
                    "max_target": a["targets"],
                    "shards": a["shards"],
                    "shard_seeds": a["seeds"],
                }
                for p, a in per_part.items()
            },
            "known_findings_reported": known_lines,
            "harness_problems": problems + [e.splitlines()[-1] if e.strip() else e for e in errors],
            "unobservable_parts": problems_soft,
        },
        "assumptions": list(getattr(mod, "ASSUMPTIONS", [])),
        "wall_s": round(time.time() - t0, 3),
        "violations": 1 if failure else 0,
    }
    os.makedirs(os.path.join(OUT_ROOT, "evidence"), exist_ok=True)
    with open(os.path.join(OUT_ROOT, "evidence", "%s.json" % mod.ID), "w") as f:
        json.dump(evidence, f, indent=1, sort_keys=True, allow_nan=True, default=str)

    print("%s tier=%s seed=%d: %d cases, %d distinct non-trivial, %.1f s" % (mod.ID, tier, seed, evals, nontriv, time.time() - t0))
    for p, a in per_part.items():
        print("  part %-22s evals=%-7d nontrivial=%-7d discards=%s known=%s" % (
            p, a["evals"], len(a["nontrivial"]), dict(a["discards"]), dict(a["known"])))
    if failure:
        path = write_replay(mod.ID, failure, seed, tier)
        print("  failing part: %s" % failure["part"])
        print("  message: %s" % failure["message"])
        print("VIOLATION property=%s replay=%s" % (mod.ID, path), flush=True)
        return EXIT_VIOLATION
    if errors or problems:
        for e in errors:
            print("HARNESS-ERROR: %s" % e, file=sys.stderr)
        for p in problems:
            print("HARNESS-PROBLEM: %s" % p, file=sys.stderr)
        return EXIT_HARNESS
    return EXIT_OK


def replay(prop_id, path):
    mod = load_prop(prop_id)
    with open(path) as f:
        body = json.load(f)
    part = {p.name: p for p in mod.PARTS}[body["part"]]
    try:
        out = part.check(body["case"])
    except Discard as d:
        print("replay: case is discarded now (%s)" % d.reason)
        return EXIT_OK
    except Violation as v:
        print("  message: %s" % v)
        print("VIOLATION property=%s replay=%s" % (mod.ID, path), flush=True)
        return EXIT_VIOLATION
    print("replay: property holds on this case (%s)" % (out,))
    return EXIT_OK
