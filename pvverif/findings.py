"""Known findings: committed list, read-only at run time (see DESIGN.md section 2)."""
import json
import os

from . import VERIF_ROOT

_PATH = os.path.join(VERIF_ROOT, "known_findings.json")
_cache = None


def _load():
    global _cache
    if _cache is None:
        with open(_PATH) as f:
            _cache = json.load(f)
    return _cache


def entry(fid):
    for e in _load()["findings"]:
        if e["id"] == fid:
            return e
    return None


def is_known(fid, prop_id=None):
    """True only for an entry with status 'known' (a 'fixed' entry suppresses nothing)."""
    e = entry(fid)
    if e is None or e.get("status") != "known":
        return False
    return prop_id is None or prop_id in e.get("properties", [])
