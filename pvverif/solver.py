"""Helpers shared by the solver-family properties (C02, C08, C09, C10, C18, ...)."""
from . import build
from .core import call
from .observe import Trace


def make_pv(case, membrane_spec=None):
    mix = build.mixture(case["mixture"])
    if membrane_spec is None:
        from .gen import simple_membrane

        membrane_spec = simple_membrane(case.get("p1", 1e-2), case.get("p2", 1e-3), t=case.get("T", 330.0))
    mem = build.membrane(membrane_spec, mix)
    return build.Pervaporation(membrane=mem, mixture=mix), mix


def _preused(comp, case=None):
    from .procs import preuse

    return preuse(comp, build.mixture(case["mixture"]) if case is not None else None)


def solver_kwargs(case, explicit=True):
    kw = dict(
        feed_temperature=case["T"],
        composition=_preused(build.composition(case["x"], case["basis"]), case),
        precision=case["precision"],
        permeate_temperature=case["perm"].get("T"),
        permeate_pressure=case["perm"].get("p"),
        calculation_type=build.fresh(case["model"]),
    )
    if explicit:
        kw["first_component_permeance"] = build.permeance(case["p1"])
        kw["second_component_permeance"] = build.permeance(case["p2"])
    return kw


def solve(pv, case, cap=200000, keep=True, explicit=True):
    """Runs calculate_partial_fluxes under the evaluation trace.  Returns (result | Raised, trace).
    EvaluationCap propagates to the caller."""
    with Trace(pv, cap=cap, keep=keep) as tr:
        out = call(pv.calculate_partial_fluxes, **solver_kwargs(case, explicit))
    return out, tr


def legit_exit_flip(evals_a, evals_b, precision, complement=False):
    """Two runs that should be twins used a different number of driving-force evaluations.  On correct code this can only
    happen when the step size at the decisive iteration sits within rounding of the requested precision (the loop exit
    flipped on a last-bit difference).  Returns True in that case, False when the stopping decisions differ although the
    step was clearly on one side of the threshold (an asymmetric / input-dependent stopping rule)."""
    ya = [e[0] for e in evals_a if e[0] is not None]
    yb = [(1.0 - e[0]) if complement else e[0] for e in evals_b if e[0] is not None]
    n = min(len(ya), len(yb))
    if n < 2 or len(ya) == len(yb):
        return True
    # an iteration that is still expanding shortly before it stops (chaotic transient: the step sizes are not decreasing) has
    # sensitive dependence on the last bits of its input; the length of such a transient is not comparable between twins
    for ys in (ya, yb):
        ds = [abs(ys[i + 1] - ys[i]) for i in range(max(0, len(ys) - 9), len(ys) - 1)]
        if any(ds[i + 1] > ds[i] for i in range(len(ds) - 1)):
            return True
    da = abs(ya[n - 1] - ya[n - 2])
    db = abs(yb[n - 1] - yb[n - 2])
    tie = 1e-6 * precision
    return abs(da - precision) <= tie and abs(db - precision) <= tie
