"""Helpers shared by the solver-family properties (C02, C08, C09, C10, C18, ...)."""
from . import build
from .core import call
from .observe import Trace


def make_pv(case, membrane_spec=None):
    mix = build.mixture(case["mixture"])
    if membrane_spec is None:
        from .gen import simple_membrane

        membrane_spec = simple_membrane(case.get("p1", 1e-2), case.get("p2", 1e-3), t=case.get("T", 330.0))
    mem = build.membrane(membrane_spec, mix)
    return build.Pervaporation(membrane=mem, mixture=mix), mix


def solver_kwargs(case, explicit=True):
    kw = dict(
        feed_temperature=case["T"],
        composition=build.composition(case["x"], case["basis"]),
        precision=case["precision"],
        permeate_temperature=case["perm"].get("T"),
        permeate_pressure=case["perm"].get("p"),
        calculation_type=case["model"],
    )
    if explicit:
        kw["first_component_permeance"] = build.permeance(case["p1"])
        kw["second_component_permeance"] = build.permeance(case["p2"])
    return kw


def solve(pv, case, cap=200000, keep=True, explicit=True):
    """Runs calculate_partial_fluxes under the evaluation trace.  Returns (result | Raised, trace).
    EvaluationCap propagates to the caller."""
    with Trace(pv, cap=cap, keep=keep) as tr:
        out = call(pv.calculate_partial_fluxes, **solver_kwargs(case, explicit))
    return out, tr
