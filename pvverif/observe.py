"""Observation layer: evaluation trace with cap, deep snapshots (DESIGN.md section 4).

Nothing here needs a hook in the sources: the trace wraps a bound method on the Pervaporation
*instance*; the evaluation counter patches a module-level name inside the harness process."""
import math

import attr
import numpy

from . import bootstrap

bootstrap()

import pyvaporation.pervaporation.pervaporation as _pvmod  # noqa: E402


class EvaluationCap(BaseException):
    """Raised by the harness when a flux calculation exceeds the evaluation cap (BaseException so
    that no `except Exception` in the code under test or in core.call can swallow it)."""

    def __init__(self, count):
        super().__init__("evaluation cap reached after %d driving-force evaluations" % count)
        self.count = count


class Trace:
    """Records (permeate fraction, returned fluxes) of every driving-force evaluation made through
    `pv.get_partial_fluxes_from_permeate_composition`, and counts calls of the module-level
    `get_partial_pressures` used by the solver (a second, refactoring-robust evaluation counter)."""

    def __init__(self, pv, cap=200000, keep=True, total_cap=None):
        self.pv = pv
        self.cap = cap
        self.total_cap = total_cap  # bound on ALL evaluations made while the trace is installed (model-level termination)
        self.keep = keep
        self.evals = []  # list of (y, (j1, j2))
        self.count = 0
        self.pp_calls = 0
        self.pp_start = 0
        self.calls = 0  # top-level solver calls (calculate_partial_fluxes) seen
        self.call_start = 0  # value of count when the current solver call started
        self.per_call = []  # evaluations used by each finished solver call
        self.total_exceeded = False
        self.hooked = False
        self._installed = []

    def __enter__(self):
        pv = self.pv
        # internals may be renamed by a refactoring: every hook is optional, the module-level counter is the fallback
        self._orig_method = getattr(pv, "get_partial_fluxes_from_permeate_composition", None)
        self._orig_pp = getattr(_pvmod, "get_partial_pressures", None)
        trace = self

        self._orig_solver = getattr(pv, "calculate_partial_fluxes", None)

        def solver(*args, **kwargs):
            trace.calls += 1
            trace.call_start = trace.count
            trace.pp_start = trace.pp_calls
            if trace.keep:
                trace.evals = []
            out = trace._orig_solver(*args, **kwargs)
            trace.per_call.append(trace.count - trace.call_start)
            return out

        def wrapped(*args, **kwargs):
            trace.count += 1
            if trace.count - trace.call_start > trace.cap:
                raise EvaluationCap(trace.count - trace.call_start)
            if trace.total_cap is not None and trace.count > trace.total_cap:
                trace.total_exceeded = True
                raise EvaluationCap(trace.count)
            out = trace._orig_method(*args, **kwargs)
            if trace.keep:
                pc = kwargs.get("permeate_composition", args[2] if len(args) > 2 else None)
                y = getattr(pc, "p", None)
                try:
                    trace.evals.append((y, (float(out[0]), float(out[1]))))
                except Exception:  # unexpected shape: keep counting, the oracle will notice
                    trace.evals.append((y, None))
            return out

        def counted_pp(*args, **kwargs):
            trace.pp_calls += 1
            if not trace.hooked:  # method hook unavailable (renamed internals): partial-pressure calls stand in for evaluations
                trace.count += 1
            if trace.pp_calls - trace.pp_start > 4 * trace.cap + 16:
                raise EvaluationCap(trace.pp_calls - trace.pp_start)
            return trace._orig_pp(*args, **kwargs)

        self._installed = []
        for name, orig, repl in (("get_partial_fluxes_from_permeate_composition", self._orig_method, wrapped),
                                 ("calculate_partial_fluxes", self._orig_solver, solver)):
            if orig is None:
                continue
            try:
                object.__setattr__(pv, name, repl)
                self._installed.append(name)
            except Exception:
                pass
        self.hooked = "get_partial_fluxes_from_permeate_composition" in self._installed
        if self._orig_pp is not None:
            _pvmod.get_partial_pressures = counted_pp
        return self

    def __exit__(self, *exc):
        for name in self._installed or []:
            try:
                object.__delattr__(self.pv, name)
            except Exception:
                pass
        if self._orig_pp is not None:
            _pvmod.get_partial_pressures = self._orig_pp
        return False

    # ---- derived quantities
    def reset(self):
        self.evals = []
        self.count = self.call_start = 0
        self.pp_calls = self.pp_start = 0
        self.calls = 0
        self.per_call = []


def snapshot(obj, _depth=0):
    """Canonical deep serialisation of attrs instances / containers / arrays; floats as hex."""
    if _depth > 40:
        return "<depth>"
    if obj is None or isinstance(obj, (bool, str, int)):
        return obj
    if isinstance(obj, (float, numpy.floating)):
        f = float(obj)
        return "nan" if math.isnan(f) else f.hex()
    if isinstance(obj, numpy.integer):
        return int(obj)
    if isinstance(obj, numpy.ndarray):
        return ["ndarray", [snapshot(x, _depth + 1) for x in obj.tolist()]]
    if isinstance(obj, (list, tuple)):
        return [type(obj).__name__, [snapshot(x, _depth + 1) for x in obj]]
    if isinstance(obj, dict):
        return ["dict", [[snapshot(k, _depth + 1), snapshot(v, _depth + 1)] for k, v in sorted(obj.items(), key=lambda kv: repr(kv[0]))]]
    if attr.has(type(obj)):
        return [type(obj).__name__, [[a.name, snapshot(getattr(obj, a.name), _depth + 1)] for a in attr.fields(type(obj))]]
    if hasattr(obj, "__fspath__"):
        return ["path", str(obj)]
    try:
        import pandas

        if isinstance(obj, pandas.Series):
            return ["series", [snapshot(x, _depth + 1) for x in obj.tolist()]]
    except Exception:
        pass
    return ["repr", repr(obj)]
