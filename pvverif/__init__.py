"""Property-based verification harness for Membrizard/PyVaporation (see /verif/DESIGN.md)."""
import os
import sys
import warnings

VERIF_ROOT = os.path.dirname(os.path.dirname(os.path.abspath(__file__)))
# The code under test is always imported from the working tree (default /repo).
# PVVERIF_REPO lets the sensitivity self-test point the same checks at a scratch copy.
REPO = os.environ.get("PVVERIF_REPO", "/repo")


def bootstrap():
    """Make the working tree importable and silence numeric warnings (overflow in exp is an
    expected part of the input domain, the oracles look at the values)."""
    if REPO not in sys.path:
        sys.path.insert(0, REPO)
    deps = os.path.join(VERIF_ROOT, ".deps")
    if os.path.isdir(deps) and deps not in sys.path:
        sys.path.append(deps)
    warnings.filterwarnings("ignore")
    import numpy

    numpy.seterr(all="ignore")
