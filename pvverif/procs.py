"""Process-model cases: strategies (plain data), builders and a uniform runner for the four process
kinds and the non-ideal diffusion curve (shared by C01, C03, C05-C08, C11, C17, C18, C20)."""
import math

from hypothesis import strategies as st

from . import build, gen
from .core import Discard, call, is_raised
from .refmodels import to_molar, to_weight

KINDS = ("ideal-iso", "ideal-noniso", "nonideal-iso", "nonideal-noniso")
SERIES = ("feed_temperature", "feed_compositions", "permeate_composition", "permeate_temperature", "permeate_pressure",
          "feed_mass", "partial_fluxes", "permeances", "time", "feed_evaporation_heat", "permeate_condensation_heat")


# ------------------------------------------------------------------------- temperature programme (relative)
@st.composite
def program_spec(draw):
    kind = draw(st.sampled_from(["polynomial", "exponential", "logarithmic"]))
    # offset: the programme need not pass through the stated initial temperature at t = 0 (the series still start at the
    # stated temperature; the programme takes over from step 1)
    return {"type": kind, "t_end": draw(gen.uniform(273.0, 400.0)), "deg": draw(st.integers(0, 2)),
            "w": draw(gen.uniform(-0.4, 0.4)), "c1": draw(gen.uniform(-1.0, 1.0)), "c0": draw(gen.uniform(40.0, 120.0)),
            "offset": draw(st.one_of(st.just(0.0), gen.uniform(-15.0, 15.0))),
            # an extra (highest-order) coefficient: cubic polynomial / quadratic inner polynomial of exp and log programmes
            "w3": draw(st.one_of(st.just(0.0), gen.uniform(-0.1, 0.1)))}


def materialise_program(spec, t_start, hours):
    """Coefficients of a programme that starts at t_start and moves monotonically to t_end over `hours`
    (conventions of conditions.py: polynomial sum c_i x^i; exponential c0*exp(c1 + c2 x); logarithmic c0*ln(c1 + c2 x))."""
    if spec is None:
        return None
    h = max(hours, 1e-300)
    t_end = spec["t_end"]
    t_start = min(400.0, max(273.0, t_start + spec.get("offset", 0.0)))
    w3 = spec.get("w3", 0.0)
    if spec["type"] == "polynomial":
        if spec["deg"] == 0:
            co = [t_start]
        elif spec["deg"] == 1:
            co = [t_start, (t_end - t_start) / h]
        else:
            # T = t_start + D (a1 s + a2 s^2 + a3 s^3), s = x/h, a1 + a2 + a3 = 1, |a2| <= 0.15, |a3| <= 0.1: monotone
            d = t_end - t_start
            a2, a3 = 0.375 * spec["w"], w3
            co = [t_start, d * (1.0 - a2 - a3) / h, d * a2 / (h * h)] + ([d * a3 / h**3] if a3 else [])
    elif spec["type"] == "exponential":
        # c0 exp(c1 + c2 x + c3 x^2) with c3 = w c2 / h: monotone from t_start to t_end
        c1 = spec["c1"]
        w = 3.0 * w3
        c2 = math.log(t_end / t_start) / (h * (1.0 + w))
        co = [t_start / math.exp(c1), c1, c2] + ([w * c2 / h] if w else [])
    else:
        # c0 ln(c1 + c2 x + c3 x^2)
        c0 = spec["c0"]
        c1 = math.exp(t_start / c0)
        w = 3.0 * w3
        c2 = (math.exp(t_end / c0) - c1) / (h * (1.0 + w))
        co = [c0, c1, c2] + ([w * c2 / h] if w else [])
    return {"type": spec["type"], "coefficients": co}


def eval_program(prog, x):
    """Harness-side evaluation of a materialised programme."""
    co = prog["coefficients"]
    if prog["type"] == "polynomial":
        return math.fsum(co[i] * x**i for i in range(len(co)))
    s = math.fsum(co[i] * x ** (i - 1) for i in range(1, len(co)))
    return co[0] * (math.exp(s) if prog["type"] == "exponential" else math.log(s))


# ------------------------------------------------------------------------- curve sets (ground truth)
@st.composite
def truth(draw):
    """P_i(w,T) = alpha_i exp(a1 w + a2 w^2 - (b0 + b1 w)/T), composition dependent so that a wrong argument is visible."""
    out = []
    for _ in range(2):
        b0 = draw(gen.uniform(0.0, 7000.0))
        b1 = draw(gen.uniform(-500.0, 500.0))
        pref = draw(gen.loguniform(1e-4, 0.3))
        a1 = draw(gen.uniform(-3.0, 3.0))
        a2 = draw(gen.uniform(-2.0, 2.0))
        out.append({"alpha": pref * math.exp(b0 / 330.0), "a1": a1, "a2": a2, "b0": b0, "b1": b1})
    return out


def truth_value(tr, w, t):
    return tr["alpha"] * math.exp(tr["a1"] * w + tr["a2"] * w * w - (tr["b0"] + tr["b1"] * w) / t)


@st.composite
def curve_set(draw, n_curves=(1, 3), n_points=(3, 7), noise=True, bases=("weight", "molar")):
    nc = draw(st.integers(*n_curves))
    temps = sorted(draw(st.lists(gen.uniform(293.0, 373.0), min_size=nc, max_size=nc, unique_by=lambda t: round(t / 4.0))))
    while len(temps) < nc:  # (unique_by may shorten the list only via filtering; keep construction total)
        temps.append(temps[-1] + 7.0)
    if nc > 1 and draw(st.integers(0, 4)) == 0:
        temps = [temps[0]] * nc  # several curves measured at ONE temperature (still a multi-curve set)
    elif nc > 1 and draw(st.booleans()):
        temps.reverse()  # curves listed hottest first (the order of a curve set carries no meaning)
    npts = draw(st.integers(*n_points))
    curves = []
    for t in temps:
        raw = sorted(draw(st.lists(gen.uniform(0.0, 1.0), min_size=npts, max_size=npts)))
        # distinct mass fractions in [0.03, 0.97] with a minimum gap, by construction
        ws = [0.03 + (0.94 - 0.02 * (npts - 1)) * u + 0.02 * i for i, u in enumerate(raw)]
        curves.append({
            "T": t, "ws": ws, "basis": draw(st.sampled_from(list(bases))),
            "from": draw(st.sampled_from(["permeances", "fluxes"])),
            "noise": [[draw(gen.uniform(-0.02, 0.02)) if noise else 0.0 for _ in range(2)] for _ in ws],
        })
    return {"truth": draw(truth()), "curves": curves}


def build_curve_set(spec, mix, force_basis=None):
    """Curve set object from the plain spec; the physical points (mass fractions, permeances) are the same
    whatever basis the feed compositions are expressed in."""
    from pyvaporation.mixtures import get_partial_pressures

    m1, m2 = mix.first_component.molecular_weight, mix.second_component.molecular_weight
    curves = []
    for c in spec["curves"]:
        basis = force_basis or c["basis"]
        comps, perms, fluxes = [], [], []
        for w, nz in zip(c["ws"], c["noise"]):
            p = w if basis == "weight" else to_molar(w, m1, m2)
            comp = build.composition(p, basis)
            comps.append(comp)
            p1 = truth_value(spec["truth"][0], w, c["T"]) * (1.0 + nz[0])
            p2 = truth_value(spec["truth"][1], w, c["T"]) * (1.0 + nz[1])
            perms.append((build.permeance(p1), build.permeance(p2)))
            pf = get_partial_pressures(c["T"], mix, build.composition(w, "weight"))
            fluxes.append((p1 * float(pf[0]), p2 * float(pf[1])))
        if c["from"] == "permeances":
            curves.append(build.DiffusionCurve(mixture=mix, membrane_name="M", feed_temperature=c["T"],
                                               feed_compositions=comps, permeances=perms))
        else:
            curves.append(build.DiffusionCurve(mixture=mix, membrane_name="M", feed_temperature=c["T"],
                                               feed_compositions=comps, partial_fluxes=fluxes))
    return build.DiffusionCurveSet(name="SET", diffusion_curves=curves)


# ------------------------------------------------------------------------- process cases
@st.composite
def process_case(draw, kinds=KINDS, models=("NRTL", "UNIQUAC"), removal=(1e-6, 0.3), max_steps=8, modes=("vacuum", "temperature", "pressure"),
                 builtin_share=0.5, programs=True, uq_family=None, t_low=120.0):
    kind = draw(st.sampled_from(list(kinds)))
    mdl = draw(st.sampled_from(list(models)))
    # a DiffusionCurve always converts fluxes <-> permeances with NRTL, so curve-based kinds need NRTL parameters too
    need = (mdl,) if kind.startswith("ideal") or mdl == "NRTL" else ("NRTL", mdl)
    mix = draw(gen.mixture(need, builtin_share, uq_family=uq_family))
    t = draw(gen.uniform(283.0, 390.0) if kind.startswith("nonideal") else gen.feed_temperature)
    case = {
        "kind": kind, "mixture": mix, "model": mdl, "T": t, "x": draw(gen.mid_fraction()), "basis": draw(gen.basis),
        "perm": draw(gen.permeate(t, modes, t_low)), "precision": draw(gen.loguniform(1e-7, 1e-3)),
        "membrane": draw(gen.membrane(3)), "steps": draw(st.integers(1, max_steps)),
        "removal": draw(gen.loguniform(*removal)), "area": draw(gen.loguniform(1e-3, 1e3)), "amount": draw(gen.loguniform(1e-3, 1e3)),
        "program": draw(st.one_of(st.none(), program_spec())) if (programs and kind.endswith("noniso")) else None,
    }
    if kind.endswith("noniso") and programs and case["steps"] >= 3 and draw(st.integers(0, 9)) == 0:
        # programme that leaves the initial temperature and returns to it exactly at step j (integer start temperature)
        case["T"] = int(round(case["T"]))
        case["program"] = {"return_at": draw(st.integers(2, case["steps"] - 1)), "r": draw(st.sampled_from([-8, -4, -2, -1, 1, 2, 4, 8])),
                           "type": "polynomial"}
        if case["perm"]["mode"] == "temperature":
            case["perm"] = dict(case["perm"], T=min(case["perm"]["T"], case["T"] - 40.0))
    if draw(st.integers(0, 9)) == 0:
        # numeric TYPE class: integer-valued inputs given as Python ints (a 333 K feed, 2 m2, 12 kg)
        case["T"] = int(round(case["T"]))
        if case["perm"]["mode"] == "temperature":
            case["perm"] = dict(case["perm"], T=min(case["perm"]["T"], case["T"]))
        if case["area"] >= 1:
            case["area"] = int(round(case["area"]))
        if case["amount"] >= 1:
            case["amount"] = int(round(case["amount"]))
        case["int_dt"] = True  # and a whole number of hours per step (a Python int) when the step is at least an hour
    elif draw(st.integers(0, 5)) == 0:
        case["int_dt"] = True  # whole hours as a Python int with otherwise float inputs
    if kind.startswith("nonideal"):
        case["curves"] = draw(curve_set())
        case["orders"] = {"n1": draw(st.integers(0, 2)), "m1": draw(st.integers(0, 1)), "n2": draw(st.integers(0, 2)), "m2": draw(st.integers(0, 1))}
        case["initial"] = draw(st.one_of(st.none(), st.fixed_dictionaries({"p1": gen.loguniform(1e-4, 0.3), "p2": gen.loguniform(1e-4, 0.3),
                                                                           "units": st.sampled_from(gen.UNITS)})))
        case["include_zero"] = draw(st.booleans())
    return case


class Setup:
    pass


def setup(case, basis=None):
    """Objects for a process case.  `basis` overrides the basis of the initial feed (same physical composition)."""
    failed_calls_once()
    s = Setup()
    s.mix = build.mixture(case["mixture"])
    s.mem = build.membrane(case["membrane"], s.mix)
    s.pv = build.Pervaporation(membrane=s.mem, mixture=s.mix)
    s.m1, s.m2 = s.mix.first_component.molecular_weight, s.mix.second_component.molecular_weight
    s.w0 = case["x"] if case["basis"] == "weight" else to_weight(case["x"], s.m1, s.m2)
    s.x = case["x"]
    s.basis = case["basis"]
    if basis is not None and basis != case["basis"]:
        s.basis = basis
        s.x = to_weight(case["x"], s.m1, s.m2) if basis == "weight" else to_molar(case["x"], s.m1, s.m2)
    s.curves = build_curve_set(case["curves"], s.mix) if case.get("curves") else None
    s.initial = None
    if case.get("initial"):
        from .refmodels import convert_units

        u = case["initial"]["units"]
        s.initial = (build.permeance(convert_units(case["initial"]["p1"], build.KG, u, s.m1), u),
                     build.permeance(convert_units(case["initial"]["p2"], build.KG, u, s.m2), u))
    return s


def step0_permeances(case, s):
    """Permeances (kg) the model is expected to use at step 0 (for the step-length scale only)."""
    if case["kind"].startswith("ideal"):
        return tuple(float(s.mem.get_permeance(case["T"], c).convert(build.KG, c).value)
                     for c in (s.mix.first_component, s.mix.second_component))
    if case.get("initial"):
        return case["initial"]["p1"], case["initial"]["p2"]
    tr = case["curves"]["truth"]
    return truth_value(tr[0], s.w0, case["T"]), truth_value(tr[1], s.w0, case["T"])


def returning_program(case, dt):
    """Polynomial programme T0 + r x - (r/xj) x^2 that comes back EXACTLY to the initial temperature at step j: the step length is
    a power of two, T0 an integer and r a small integer, so every operation is exact (a branch that tests
    `temperature == initial temperature` is taken again in the middle of the run)."""
    spec = case.get("program") or {}
    j = spec.get("return_at")
    xj = j * dt
    return {"type": "polynomial", "coefficients": [float(case["T"]), float(spec["r"]), -float(spec["r"]) / xj]}


def program_for(case, dt):
    """The materialised programme of a case for the step length dt (None without a programme)."""
    spec = case.get("program")
    if not spec:
        return None
    if spec.get("return_at"):
        return returning_program(case, dt)
    return materialise_program(spec, case["T"], dt * case["steps"])


def step_length(case, s):
    dt = _step_length(case, s)
    if (case.get("program") or {}).get("return_at"):
        dt = 2.0 ** round(math.log2(dt))
    return dt


def step0_fluxes(case, s):
    """Standalone flux calculation at the initial state with the permeances the model is expected to use at step 0."""
    p1, p2 = step0_permeances(case, s)
    return call(s.pv.calculate_partial_fluxes, feed_temperature=case["T"], composition=build.composition(s.w0, "weight"),
                precision=case["precision"], permeate_temperature=case["perm"]["T"], permeate_pressure=case["perm"]["p"],
                first_component_permeance=build.permeance(p1), second_component_permeance=build.permeance(p2),
                calculation_type=case["model"])


def _step_length(case, s):
    """delta_hours such that step 0 removes about `removal` of the feed (from a standalone flux calculation)."""
    p1, p2 = step0_permeances(case, s)
    j = call(s.pv.calculate_partial_fluxes, feed_temperature=case["T"], composition=build.composition(s.w0, "weight"),
             precision=case["precision"], permeate_temperature=case["perm"]["T"], permeate_pressure=case["perm"]["p"],
             first_component_permeance=build.permeance(p1), second_component_permeance=build.permeance(p2),
             calculation_type=case["model"])
    if is_raised(j):
        raise Discard("step-0 flux calculation raised %s" % j.type)
    tot = float(j[0]) + float(j[1])
    if not (math.isfinite(tot) and tot > 0):
        raise Discard("no positive step-0 flux")
    dt = case["removal"] * case["amount"] / (case["area"] * tot)
    if not (math.isfinite(dt) and dt > 0):
        raise Discard("step length not representable")
    if case.get("int_dt") and 1 <= dt < 1e6:
        dt = int(round(dt))
    return dt


def conditions_spec(case, s, dt, area=None, amount=None):
    try:
        return _conditions_spec(case, s, dt, area, amount)
    except (ZeroDivisionError, OverflowError, ValueError):
        raise Discard("temperature programme not representable for this step length")


def _conditions_spec(case, s, dt, area=None, amount=None):
    if (case.get("program") or {}).get("return_at"):
        prog = returning_program(case, dt)
        return {"area": case["area"] if area is None else area, "T": case["T"], "amount": case["amount"] if amount is None else amount,
                "x": s.x, "basis": s.basis, "Tp": case["perm"]["T"], "pp": case["perm"]["p"], "program": prog}
    return {"area": case["area"] if area is None else area, "T": case["T"], "amount": case["amount"] if amount is None else amount,
            "x": s.x, "basis": s.basis, "Tp": case["perm"]["T"], "pp": case["perm"]["p"],
            "program": program_for(case, dt)}


def run(case, s, dt, cond_spec=None, kind=None, steps=None):
    """Runs the process model of the case; returns ProcessModel | Raised."""
    kind = kind or case["kind"]
    cond = build.conditions(cond_spec or conditions_spec(case, s, dt))
    preuse(cond.initial_feed_composition, s.mix)
    n = steps or case["steps"]
    pv = s.pv
    case = dict(case, model=build.fresh(case["model"]))
    if kind == "ideal-iso":
        return call(pv.ideal_isothermal_process, n, dt, cond, case["precision"], case["model"])
    if kind == "ideal-noniso":
        return call(pv.ideal_non_isothermal_process, cond, n, dt, case["precision"], case["model"])
    o = case["orders"]
    kw = dict(conditions=cond, diffusion_curve_set=s.curves, number_of_steps=n, delta_hours=dt, precision=case["precision"],
              calculation_type=case["model"], initial_permeances=s.initial, n_first=o["n1"], m_first=o["m1"],
              n_second=o["n2"], m_second=o["m2"], include_zero=case.get("include_zero", False))
    if kind == "nonideal-iso":
        return call(pv.non_ideal_isothermal_process, **kw)
    return call(pv.non_ideal_non_isothermal_process, **kw)


def lookahead_borderline(model, area, dt):
    """True when, in a RETURNED model, some state - including the look-ahead state that follows the last reported step and is popped
    without validation - sits on (or beyond) the validity boundary to rounding: a remaining amount <= 1e-9 of the initial feed, or a
    run-away self-cooling below 150 K.  A twin that raises on such a trajectory differs only in which rounding trips a validator first."""
    if min(float(t_) for t_ in model.feed_temperature) < 150.0:
        return True
    for k in range(len(model.feed_mass)):
        mk, wk = float(model.feed_mass[k]), model.feed_compositions[k].p
        d1 = float(model.partial_fluxes[k][0]) * area * dt
        d2 = float(model.partial_fluxes[k][1]) * area * dt
        rem = (mk * wk - d1, mk * (1 - wk) - d2, mk - d1 - d2)
        if any(r <= 1e-9 * float(model.feed_mass[0]) for r in rem):
            return True
    return False


_poisoned = False


def failed_calls_once():
    """Once per worker process: a few public calls that are DOCUMENTED to fail (loading a curve file for an unknown mixture,
    constructing an invalid composition / mixture).  On correct code a failed call leaves no trace; code that switches global
    state off around a loop without try/finally (validators, caches) stays poisoned for the rest of the session."""
    global _poisoned
    if _poisoned:
        return
    _poisoned = True
    import os
    import tempfile
    from pathlib import Path

    from pyvaporation import DiffusionCurveSet

    d = tempfile.mkdtemp(prefix="pvverif-poison-")
    try:
        f = os.path.join(d, "unknown_mixture.csv")
        cols = "curve_id,membrane_name,mixture,feed_temperature,permeate_temperature,permeate_pressure,composition,composition_type,partial_flux_1,partial_flux_2,permeance_1,permeance_2,units,comment"
        with open(f, "w") as fh:
            fh.write(cols + "\n1,M,H2O_EtOH,333.15,,,0.1,weight,1.0,0.1,,,,c\n2,M,No_Such_Mixture,333.15,,,0.1,weight,1.0,0.1,,,,c\n")
        call(DiffusionCurveSet.load, Path(f))
        g = os.path.join(d, "bad_columns.csv")
        with open(g, "w") as fh:
            fh.write("a,b\n1,2\n")
        call(DiffusionCurveSet.load, Path(g))
    finally:
        import shutil

        shutil.rmtree(d, ignore_errors=True)
    call(build.composition, 1.5, "weight")
    call(build.Mixture, name="X", first_component=build.Components.H2O, second_component=build.Components.EtOH)
    # flux calculations that must be rejected: model without its parameters, both permeate conditions, lone experiment without Ea
    from pyvaporation import Mixtures

    h2o, etoh = build.Components.H2O, build.Components.EtOH
    only_nrtl = build.Mixture(name="ONLY_NRTL", first_component=h2o, second_component=etoh, nrtl_params=Mixtures.H2O_EtOH.nrtl_params)
    only_uq = build.Mixture(name="ONLY_UQ", first_component=h2o, second_component=etoh, uniquac_params=Mixtures.H2O_EtOH.uniquac_params)
    spec = {"name": "M", "e1": [{"T": 330.0, "value": 0.01, "units": build.KG, "Ea": 20000.0}],
            "e2": [{"T": 330.0, "value": 0.001, "units": build.KG, "Ea": None}]}
    for mix, mdl in ((only_nrtl, "UNIQUAC"), (only_uq, "NRTL"), (only_nrtl, "NRTL")):
        pv = build.Pervaporation(membrane=build.membrane(spec, mix), mixture=mix)
        for x in (0.3, 0.0, 1.0):
            comp = build.composition(x, "weight")
            call(pv.calculate_partial_fluxes, feed_temperature=330.0, composition=comp, calculation_type=mdl)
            call(pv.calculate_partial_fluxes, feed_temperature=330.0, composition=comp, permeate_temperature=280.0, permeate_pressure=1.0,
                 calculation_type="NRTL")
            call(pv.calculate_partial_fluxes, feed_temperature=345.0, composition=comp, calculation_type="NRTL")  # lone experiment, no Ea
            call(pv.ideal_diffusion_curve, 330.0, [comp], None, None, 5e-5, mdl)
    call(build.DiffusionCurve, mixture=only_nrtl, membrane_name="M", feed_temperature=330.0, feed_compositions=[build.composition(0.3, "weight")])
    call(build.permeance(1.0).convert, "SI", None)
    # ... and a few unrelated SUCCESSFUL calls (a VLE fit, a permeance fit, a save-free curve construction)
    try:
        import os as _os

        from pyvaporation import VLEPoints, fit_vle

        from . import REPO

        vle = VLEPoints.from_csv(_os.path.join(REPO, "tests", "VLE_data", "binary", "MeOH_DMC.csv"))
        call(fit_vle, VLEPoints(components=vle.components, data=vle.data[:5]), "Powell")
    except Exception:
        pass


def preuse(comp, mix=None):
    """Uses a Composition object with OTHER mixtures before it is handed to the code under test (a no-op on correct code;
    exposes conversion results memoised on the instance) - built-in ones and, when the case's mixture is known, a mixture of the
    SAME NAME with different molar masses (user-defined mixtures may share a name)."""
    import attr as _attr
    from pyvaporation import Mixtures

    others = [Mixtures.H2O_iPOH, Mixtures.MeOH_Toluene]
    if mix is not None:
        others.append(build.Mixture(name=mix.name, nrtl_params=mix.nrtl_params, uniquac_params=mix.uniquac_params,
                                    first_component=_attr.evolve(mix.first_component, molecular_weight=mix.first_component.molecular_weight * 2.5),
                                    second_component=_attr.evolve(mix.second_component, molecular_weight=mix.second_component.molecular_weight * 0.7)))
    for other in others:
        call(comp.to_weight, other)
        call(comp.to_molar, other)
    return comp


def classes_of(case):
    c = [case["kind"], case["model"], case["perm"]["mode"], "builtin" if "builtin" in case["mixture"] else "synthetic", case["basis"]]
    if case.get("program"):
        c.append("program:" + case["program"]["type"])
    elif case["kind"].endswith("noniso"):
        c.append("self-cooling")
    if case.get("curves"):
        c.append("curves=%d" % len(case["curves"]["curves"]))
        c.append("initial-permeances" if case.get("initial") else "no-initial-permeances")
    return c
