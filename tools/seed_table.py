#!/usr/bin/env python3
"""Rewrites the table between <!-- SEEDS-BEGIN --> and <!-- SEEDS-END --> in DESIGN.md from seeded/*/meta.json."""
import glob, json, os, re
root = os.path.dirname(os.path.dirname(os.path.abspath(__file__)))
rows = []
first_missed = 0
for f in sorted(glob.glob(os.path.join(root, "seeded", "*", "meta.json"))):
    m = json.load(open(f))
    diff = open(os.path.join(os.path.dirname(f), "patch.diff")).read()
    files = sorted(set(os.path.basename(x) for x in re.findall(r"^\+\+\+ b/(\S+)", diff, re.M)))
    r = m["remarks"].replace("|", "/")
    missed = bool(re.match(r"(FIRST MISSED|FIRST INCONCLUSIVE|MISSED at seed 1)", r))
    first_missed += missed
    rows.append("| %s | %d | %s | %s | %s |" % (m["seed"], m.get("round", 1), ", ".join(files), ", ".join(m["caught_by_quick_checks"]) or "-", r))
table = ["| seed | round | file(s) changed | caught by (quick) | what it needs to manifest / history of detection |", "|---|---|---|---|---|"] + rows
table.append("")
table.append("Totals: %d seeded changes kept; %d caught at the first run of the property's quick check, %d first missed or "
             "inconclusive (each caught after the generator/oracle strengthening named in its row; the strengthened checks stay "
             "quiet on the unchanged tree)." % (len(rows), len(rows) - first_missed, first_missed))
p = os.path.join(root, "DESIGN.md")
s = open(p).read()
a, b = "<!-- SEEDS-BEGIN -->", "<!-- SEEDS-END -->"
assert a in s and b in s
s = s[: s.index(a) + len(a)] + "\n" + "\n".join(table) + "\n" + s[s.index(b):]
open(p, "w").write(s)
print("rows", len(rows), "first missed", first_missed)
