#!/bin/bash
# Re-runs every reverted fix and every kept seeded change against its property's quick check and stores the shrunk
# failing case as corpus/<ID>/<name>.json (the seconds-long replay tier).  Run on the unchanged tree only.
cd "$(dirname "$(dirname "$(readlink -f "$0")")")"
declare -A REV=( [D2]=C08 [D3]=C08 [D4]=C08 [D5]=C03 [D6]=C03 [D8]=C10 [D9]=C16 [D10]=C07 [D11]=C07 [D12a]=C18 [D12b]=C18 [D12c]=C18 [D13]=C12 )
# ONLY=<glob> restricts the run to matching names (seed directories like 'C07-J', reverted fixes like 'D13'), e.g. ONLY='*-[IJ]'
for d in "${!REV[@]}"; do
  case "$d" in ${ONLY:-*}) ;; *) continue;; esac
  ID=${REV[$d]}
  KEEP_REPLAY=corpus/$ID KEEP_NAME=revert_$d tools/mutant_run.sh tools/mutants/revert_$d.diff $ID quick 1 | tail -1
done
for s in seeded/*/; do
  n=$(basename $s); ID=${n%%-*}
  case "$n" in ${ONLY:-*}) ;; *) continue;; esac
  KEEP_REPLAY=corpus/$ID KEEP_NAME=seed_$n tools/mutant_run.sh $s/patch.diff $ID quick ${SEED:-1} | tail -1
done
