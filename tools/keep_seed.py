#!/usr/bin/env python3
"""usage: keep_seed.py <PID> <A|B> "<caught-by checks>" "<missed-by checks>" "<what I ran / remarks>"
Copies a confirmed seeded change from /tmp/seed-<PID>/ into /verif/seeded/<PID>-<X>/ with meta.json."""
import json, os, re, shutil, sys
pid, x, caught, missed, remarks = sys.argv[1:6]
rnd = os.environ.get("ROUND", "1")
src = "/tmp/seed-%s" % pid if rnd == "1" else "/tmp/seed%s-%s" % (rnd, pid)
name = x if rnd == "1" else {"A": "C", "B": "D"}[x] if rnd == "2" else {"A": "E", "B": "F"}[x] if rnd == "3" else {"A": "G", "B": "H"}[x] if rnd == "4" else {"A": "I", "B": "J"}[x] if rnd == "5" else {"A": "K", "B": "L"}[x]
dst = os.path.join(os.path.dirname(os.path.dirname(os.path.abspath(__file__))), "seeded", "%s-%s" % (pid, name))
os.makedirs(dst, exist_ok=True)
shutil.copy(os.path.join(src, "%s.diff" % x), os.path.join(dst, "patch.diff"))
shutil.copy(os.path.join(src, "%s_demo.py" % x), os.path.join(dst, "demo.py"))
notes = open(os.path.join(src, "notes.md")).read()
# section of the notes about this change
m = re.split(r"(?im)^#+\s*.*\bchange\s+%s\b.*$|^#+\s*%s\b.*$" % (x, x), notes)
meta = {
    "seed": "%s-%s" % (pid, name),
    "round": int(rnd),
    "breaks_property": pid,
    "needs_to_manifest": "see notes (author's description below)",
    "author_notes": notes,
    "confirmed": "applied to a scratch worktree of /repo HEAD with tools/seed_eval.sh: patch applies, 102/102 tests pass with it, demo exits 0 on the clean tree and 1 with the change",
    "caught_by_quick_checks": caught.split(),
    "missed_by_quick_checks": missed.split(),
    "remarks": remarks,
    "demo_usage": "the demo inserts /tmp/wt-%s into sys.path; tools/seed_eval.sh rewrites that path to the scratch worktree" % pid,
}
json.dump(meta, open(os.path.join(dst, "meta.json"), "w"), indent=1)
print("kept", dst)
