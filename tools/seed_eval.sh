#!/bin/bash
# usage: tools/seed_eval.sh <diff> <demo.py> "<ID> [<ID>...]"
# 1. confirms the seeded change in a scratch worktree of /repo (applies, suite passes, demo fails with / passes without)
# 2. runs the named quick checks against a scratch copy with the change applied
set -u
DIFF=$(readlink -f "$1"); DEMO=$(readlink -f "$2"); IDS=$3
VERIF=$(dirname "$(dirname "$(readlink -f "$0")")")
W=$(mktemp -d /tmp/pvseed.XXXXXX)
trap 'git -C /repo worktree remove --force "$W/wt" 2>/dev/null; rm -rf "$W"' EXIT
git -C /repo worktree add -q "$W/wt" HEAD || exit 3
ORIG=$(grep -o "/tmp/wt-C[0-9]*" "$DEMO" | head -1)
sed "s|$ORIG|$W/wt|g" "$DEMO" > "$W/demo.py"
(cd "$W/wt" && /venv/bin/python "$W/demo.py" > "$W/demo_clean.log" 2>&1); echo "demo on clean tree: exit $?"
(cd "$W/wt" && git apply "$DIFF") || { echo "APPLY-FAILED"; exit 3; }
(cd "$W/wt" && /venv/bin/python "$W/demo.py" > "$W/demo_mut.log" 2>&1); echo "demo with change: exit $? ($(tail -1 "$W/demo_mut.log" | cut -c1-160))"
if [ "${SKIP_SUITE:-0}" != 1 ]; then
  (cd "$W/wt" && /venv/bin/python -m pytest -q -p no:cacheprovider -n 8 2>&1 | tail -1)
fi
for ID in $IDS; do
  mkdir -p "$W/out-$ID"
  PVVERIF_REPO="$W/wt" PVVERIF_OUT="$W/out-$ID" VERIF_SEED=${SEED:-1} "$VERIF/check" "$ID" --tier "${TIER:-quick}" > "$W/log-$ID" 2>&1
  RC=$?
  echo "check $ID exit=$RC $(grep -E '^  message' "$W/log-$ID" | head -1 | cut -c1-260)"
  if [ -n "${KEEP_REPLAY:-}" ] && [ $RC = 1 ]; then cp "$W/out-$ID"/replays/*.json "$KEEP_REPLAY/" 2>/dev/null; fi
done
