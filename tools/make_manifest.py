#!/usr/bin/env python3
"""Regenerates /verif/MANIFEST.json from the table below (kept in one place so it stays valid)."""
import json
import os

ROOT = os.path.dirname(os.path.dirname(os.path.abspath(__file__)))

# id -> (technique, level text, level note, design ref)
CHECKS = {
    "C15": (
        "Hypothesis property test: round-trip + reference conversion law + monotonicity/ratio-law/rejection oracles",
        "Generated-input search (Hypothesis, 16 shards) over fractions in [0,1] incl. end points, subnormals and values "
        "within 1e-12 of the ends, and molar-mass pairs with ratio up to 1e3; oracle = inverse round trip with an "
        "a-priori rounding bound, an independent reference formula, strict monotonicity for resolvable gaps, the "
        "cancellation-free ratio law and rejection of every outside value. Exploration, not proof: holds on all cases generated.",
        "IEEE-754 doubles; tolerance 32 eps x max(M1/M2, M2/M1); adjacent floats may legitimately collide so strict "
        "monotonicity is asserted only for gaps above 64 eps x mass ratio.",
        "DESIGN.md section 6 C15",
    ),

    "C14": (
        "Hypothesis property test: algebraic laws (linearity, identity, path independence, inverse) + absolute unit factors + rejection oracle",
        "Generated-input search: all 27 ordered unit triples (hence all 9 pairs) enumerated inside the strategy x generated values (0, 1e-12..1e6) "
        "and components (12 built-in, random molar mass); oracle = stated absolute factors, homogeneity/additivity, A->B->C = A->C, A->B->A = A, "
        "raising for a missing component / unknown unit, non-negative clamp. Exploration: holds on all cases generated.",
        "relative tolerance 1e-14 (4e-14 for composed conversions); 'raises' accepts any exception type.",
        "DESIGN.md section 6 C14",
    ),
    "C13": (
        "Hypothesis property test: Clausius-Clapeyron by 5-point numerical differentiation; cooling heat vs Gauss quadrature and algebraic laws",
        "Generated-input search over Antoine/Frost constants (built-in + wide random ranges), T 200..500 K, arbitrary cubic Cp of either sign "
        "and temperature triples; oracle = R T^2 dlnPsat/dT from the package's own vapour pressure (stencil, h=0.05 K), 2-point Gauss-Legendre "
        "quadrature of the package's own specific heat (exact for cubics), additivity, antisymmetry, Q(a,a)=0, dQ/dt0 = Cp. Exploration.",
        "numerical derivative tolerance 1e-6 relative (measured worst 1.1e-9); quadrature tolerance 1e-12 of the sum of absolute terms.",
        "DESIGN.md section 6 C13",
    ),
    "C10": (
        "Hypothesis property test with harness-side evaluation counter: bounded-termination oracle + cycle/stagnation classifier at the cap",
        "Generated-input search over the full solver domain weighted to UNIQUAC + permeate temperature (the region with attracting 2-cycles), "
        "ideal process/curve models of 1..12 steps, and the corpus of inputs that never terminated on the pinned tree; oracle = every flux "
        "calculation performs at most 50 000 driving-force evaluations or raises; at the cap the iterate trace is classified (cycle/stagnation "
        "= VIOLATION, still contracting = inconclusive). Bounded form of termination: exploration, not proof.",
        "evaluations counted by wrapping the bound method on the Pervaporation instance and the module-level get_partial_pressures name; an "
        "infinite loop that makes no counted call only trips the runner watchdog (exit 2).",
        "DESIGN.md section 6 C10",
    ),
    "C02": (
        "Hypothesis property test: solution-diffusion law recomputed at the traced last iterate, iterate-chain and stopping-rule invariants, "
        "black-box fixed-point residual, exact vacuum / fixed-pressure identities, permeance-scaling metamorphic twin",
        "Generated-input search over mixtures x {NRTL, UNIQUAC} x 3 permeate modes x permeances x feed state x precision; oracle: returned "
        "fluxes = permeance x (feed - permeate partial pressure) recomputed with pyvaporation.mixtures at the last iterate (rel 1e-12), every "
        "iterate is the composition of the previous evaluation's fluxes, |y_k - y_(k-1)| < precision, self-consistency within precision when "
        "locally contractive, J = P*pf exactly for vacuum / p=0, J1/P1+J2/P2 = pf1+pf2-p, permeances x k -> fluxes x k. Exploration.",
        "partial pressures come from the package's own mixture module (checked separately by C04); calls that raise are discards; contractivity "
        "is estimated by a finite-difference Lipschitz constant < 0.9 plus non-increasing steps along the trace.",
        "DESIGN.md section 6 C02",
    ),
    "C04": (
        "Hypothesis property test: Gibbs-Duhem residual by 5-point stencil, pure-component limits, Raoult reduction, p = x*gamma*Psat, "
        "mole/mass input invariance; known-finding predicate = exact reproduction of the slipped UNIQUAC formula",
        "Generated-input search over 8 built-in + synthetic mixtures x {NRTL one/two alphas with/without a12,a21; UNIQUAC} x mole fraction in (0,1) "
        "incl. 1e-6 from the ends x T 273..400 K; oracle as in the technique field, Gibbs-Duhem asserted only where the stencil is converged "
        "(h vs h/2) with a rounding-noise allowance. The UNIQUAC gamma_2 slip (D1) is a recorded known finding; any other deviation fails. Exploration.",
        "reference UNIQUAC (published and slipped variants) written in the harness from the Anderson-Prausnitz equation with tau as the package defines it.",
        "DESIGN.md section 6 C04",
    ),
    "C12": (
        "Hypothesis property test against a reference Arrhenius model of the membrane (nearest experiment, stated or regressed Ea)",
        "Generated-input search over components, 1..6 experiments per component in any order and unit, stated/unstated/mixed activation energies, "
        "exact-Arrhenius and noisy families, query temperatures 260..420 K; oracle = harness reference model (two-pass least squares), Ea recovery and "
        "nearest-experiment independence on exact lines, molar = mass selectivity x M2/M1, pure-component flux = P x (Psat - permeate pressure); "
        "differential twin: the same experiments written as ideal_experiments.csv (blank cells for unstated values) and loaded with Membrane.load answer "
        "like the membrane built from objects; typed twins (int / numpy.int64 temperatures) and repeated questions on one membrane. Exploration.",
        "ties between nearest experiments (< 1e-6 K) are skipped; non-exact experiments are an Arrhenius line with bounded noise so regressed Ea stays in the quantified range.",
        "DESIGN.md section 6 C12",
    ),
    "C08": (
        "Hypothesis differential test across entry points: standalone flux calculation vs helpers, one-point curve, step 0 and every step of process models",
        "Generated-input search over membrane x mixture x {NRTL, UNIQUAC} x feed state (molar/mass) x permeate mode x precision x ideal processes of "
        "1..6 steps; oracle: all entry points reproduce the standalone flux calculation (rel 1e-12), y = J1/(J1+J2), separation factor = "
        "(y1/y2)/(x1/x2), PSI = total flux x (sf-1), every process step equals a standalone calculation at its reported state. Non-trivial cases "
        "are those where NRTL and UNIQUAC answers differ, so a silent fall-back is visible; metamorphic: moving the parameters of the model that was "
        "NOT selected leaves every entry point bit-identical; the standalone calculation uses the permeate condition each step reports. Exploration.",
        "reference call uses keyword arguments; cases whose reference call raises are discards.",
        "DESIGN.md section 6 C08",
    ),
    "C09": (
        "Hypothesis round-trip test: solver -> DiffusionCurve inversion with a computed tolerance; reference inversion; permeance -> flux -> permeance; unit normalisation",
        "Generated-input search over mixtures x 3 permeate modes x permeances (kg/SI/GPU) x 1..4 compositions (molar/mass) x T x precision 1e-8..1e-5; "
        "oracle: curve built from solver fluxes reports the solver's permeances within the exact effect of the stopping tolerance, equals the harness "
        "inversion, curve from permeances gives P x pf and re-inverts to P (1e-12), permeances always exposed in kg/(m2 h kPa) - also for curves "
        "read once before (derived quantities are views), tabulated curves (from_frame) and one Permeance object shared by both components. The permeate-pressure "
        "basis mismatch (D7) is a recorded known finding with a narrow predicate. Exploration.",
        "NRTL only (a DiffusionCurve has no activity-model field); last solver iterate observed through the evaluation trace.",
        "DESIGN.md section 6 C09",
    ),

    "C01": (
        "Hypothesis property test: per-step mass/component/time identities recomputed from the reported series (invariant over the trajectory)",
        "Generated-input search over 4 process kinds x 3 permeate modes x built-in/synthetic mixtures x {NRTL, UNIQUAC} x membranes x area/amount "
        "1e-3..1e3 x 1..8 steps x step lengths removing 1e-6..0.3 of the feed x molar/mass initial composition x self-cooling / 3 programme types "
        "(non-ideal kinds on generated curve sets); oracle: series lengths, time[k]=k*dt, initial amount/composition/temperature, "
        "m[k+1]=m[k]-(J1+J2)A dt and m[k+1]w[k+1]=m[k]w[k]-J1 A dt to 1e-12. Exploration.",
        "identities use only reported quantities; models that raise are counted discards; an evaluation cap protects against non-termination (C10).",
        "DESIGN.md section 6 C01",
    ),
    "C03": (
        "Hypothesis property test: heat identities recomputed per step + isothermal vs non-isothermal step-0 differential",
        "Generated-input search as C01 with every case also run through its iso/non-iso sibling; oracle: evaporation heat = sum of permeated mass x "
        "own latent heat at the step's temperature (component's public method), self-cooling T[k+1]=T[k]-Q/(m cp), programme T[k]=program(k dt) "
        "incl. programmes that do not pass through the initial temperature, isothermal T constant, identical step-0 fluxes and heats of the two "
        "siblings, condensation heat present iff a permeate temperature is given. Exploration.",
        "latent heat and specific heat come from Component methods (verified independently by C13); tolerance 1e-12 (1e-10 programme).",
        "DESIGN.md section 6 C03",
    ),
    "C05": (
        "Hypothesis differential test: returned fits vs the public best-fit search; permeances used vs fit x constant factor; Arrhenius re-scaling of single-curve fits",
        "Generated-input search over composition-dependent curve sets (1..3 temperatures, permeances or fluxes, molar or mass), orders n<=2 m<=1, "
        "with/without initial permeances (kg/SI/GPU) and zero points, start temperature equal to / different from a curve temperature, all "
        "permeate modes, isothermal / self-cooling / programme processes and the non-ideal curve; oracle: permeance_fits equal find_best_fit on "
        "Measurements of the same set (coefficients 1e-12, functions 1e-9 on a 5x5 grid, single curve: x Arrhenius factor with the membrane's Ea), "
        "permeances[k] = FR_i x fit_i(x_ref(k), T[k]) with constant FR_i fixed by step 0. Exploration.",
        "fits are deterministic; the isothermal model may lag the composition by one step (allowed by the statement) but consistently.",
        "DESIGN.md section 6 C05",
    ),
    "C06": (
        "Hypothesis metamorphic test: relabelling twin (components, parameters, composition, experiments exchanged) at 5 layers",
        "Generated-input search; the harness builds the relabelled twin and compares activity coefficients, partial pressures, solver fluxes, "
        "one-point ideal curve and its metrics, ideal iso/non-iso processes (masses, temperatures, heats equal; fractions complement; separation "
        "factor and selectivities invert), membrane selectivity. UNIQUAC upper layers use the tau12=tau21 family where the known gamma_2 slip (D1) "
        "cancels; at the thermodynamic layer D1 is recognised by exact reproduction of the slipped formula. Exploration.",
        "tolerance 1e-9 plus the conditioning of 1-p and of y/(1-y); process/solver twins compared only for equal evaluation counts.",
        "DESIGN.md section 6 C06",
    ),
    "C07": (
        "Hypothesis metamorphic test: mole- vs mass-fraction twin at every public entry point",
        "Generated-input search: the same physical composition as mass fraction and as mole fraction through the flux solver, permeate-composition and "
        "separation-factor helpers, ideal curve and its metrics, 4 process models and the non-ideal curve (basis of the initial feed varied on one "
        "curve-set object), measurement extraction from the same curve set expressed in both bases, and tabulated curves (from_frame) with all-mass, all-mole and mixed rows; "
        "oracle: equal results to 1e-9, process feed "
        "compositions typed weight. Exploration.",
        "fitted coefficients are compared only through their inputs (measurement points), as the property says; twins compared only for equal evaluation counts.",
        "DESIGN.md section 6 C07",
    ),
    "C11": (
        "Hypothesis metamorphic test: size-scaling and area/time trade-off twins (power-of-two factors to 1e-13)",
        "Generated-input search over 4 process kinds x modes x mixtures x factors 2^j and 1e-3..1e3; oracle: area and amount x s leaves fluxes, "
        "compositions, permeances, temperatures unchanged and scales masses and both heats by s; area x k with step/k leaves every per-step state "
        "unchanged (no programme), time x 1/k; step-0 fluxes independent of area, amount, step length. Exploration.",
        "general factors compared at 1e-9 only when both runs used equal evaluation counts per step.",
        "DESIGN.md section 6 C11",
    ),
    "C16": (
        "Hypothesis stateful test (RuleBasedStateMachine) of fit / find_best_fit histories on one Measurements object + function-evaluation and VLE best-of property tests",
        "Stateful generation: histories of 2..6 fit / find_best_fit / repeat calls on one shared data object; after every call the object is "
        "deeply unchanged, the result is bit-identical to the same call on a fresh equal copy and to its own repetition, find_best_fit's loss on "
        "the supplied data <= every single fit within the requested orders. Plus: PervaporationFunction value = alpha exp(sum a x^(i+1) - sum b x^i/T), "
        "(f*c) = c*f; fit_vle(data) error <= each single method on built-in VLE files (enumerated) and generated subsets, data untouched, repeat identical. Exploration.",
        "fits are deterministic on this platform; loss slack 1e-12 relative.",
        "DESIGN.md section 6 C16",
    ),
    "C17": (
        "Hypothesis round-trip tests + stateful save histories (RuleBasedStateMachine) with SHA-256 invariants and forced name collisions",
        "Round trips of DiffusionCurve (save / DiffusionCurveSet.load), PervaporationFunction (binary + JSON), Conditions (JSON) and ProcessModel "
        "(both storage modes; generated by all four process generators) with every numeric field to 1e-9, mixture, physical compositions, units, "
        "permeate condition, lengths; stateful histories of saves under one membrane directory with directly constructed ProcessModels: after every "
        "operation all earlier process_* directories are byte-identical; a forced directory-name collision (constant clock) must raise and change nothing; files saved over an earlier file of the same name and "
        "loaded again; one file holding two curves (vacuum curve first or last). Exploration.",
        "loading needs built-in mixtures (lookup by name); comments strings are not compared; temporary directories are created and removed per case.",
        "DESIGN.md section 6 C17",
    ),
    "C18": (
        "Hypothesis property test: admissibility predicate over returned trajectories incl. coarse discretisations",
        "Generated-input search over all process kinds x mixtures x modes x models with steps removing 10%..1000% of the feed (70%), fine steps (30%) "
        "and constructed classes (single self-cooling steps landing below 0 K on the last state, feeds near the overflow of the vapour pressure, "
        "non-selective membranes exhausted cumulatively, steps at the exhaustion boundary of one component +-1e-14..1e-3, programmes running below 0 K "
        "or overflowing to +inf); oracle: a returned trajectory has positive "
        "finite mass, fractions in [0,1], positive finite temperature, finite fluxes and heats at every reported step; raising is accepted. Exploration.",
        "any exception counts as raising; the popped look-ahead state is not examined.",
        "DESIGN.md section 6 C18",
    ),
    "C19": (
        "Enumerated rejection matrix x Hypothesis-generated valid arguments, differential against the valid variant of each call",
        "The cells (invalid-specification class x entry point reaching it, 58 incl. tabulated curves, membrane folders and loaded membranes; listed in the evidence) are enumerated; the otherwise valid arguments are generated; oracle: "
        "the valid variant(s) return and the invalid variant raises from package code (both permeate conditions incl. p = 0, mixture without "
        "parameters, NRTL/UNIQUAC without parameters or component constants, curve without data, single experiment without Ea for either component). Exploration "
        "over arguments, exhaustive over cells.",
        "any exception type raised inside the package counts as a rejection; cases whose valid variant raises are discards.",
        "DESIGN.md section 6 C19",
    ),
    "C20": (
        "Hypothesis stateful test (RuleBasedStateMachine) over shared objects: deep snapshots + bit-identical comparison with a forkserver-fresh process",
        "Stateful generation of 2..12 modelling calls (solver, helpers, partial pressures, ideal/non-ideal curves, 4 processes, fit, find_best_fit, "
        "measurement extraction, membrane queries) on ONE set of shared objects incl. Composition objects that carry the same number in different "
        "bases and are used with two mixtures, programmes starting off the stated initial temperature, temperatures a few mK apart, curve sets "
        "listed hottest-first; after every call: shared objects and all built-in Components/Mixtures deeply unchanged, result "
        "bit-identical to an immediate repetition and (a third of the calls in quick, all in thorough) to the same call made first in a fresh process. Exploration.",
        "fresh interpreter state = new process forked from a forkserver that imported the package and never called it; comments (datetime) excluded.",
        "DESIGN.md section 6 C20",
    ),
}

NOT_YET = "check not built yet in this round (planned, see DESIGN.md section 6)"


def main():
    props = [json.loads(l) for l in open(os.path.join(ROOT, "properties.jsonl"))]
    checks = []
    na = []
    for p in props:
        pid = p["id"]
        if pid in CHECKS:
            tech, text, note, ref = CHECKS[pid]
            checks.append({
                "property_id": pid,
                "quick_cmd": "./check %s --tier quick" % pid,
                "thorough_cmd": "./check %s --tier thorough" % pid,
                "evidence_file": "evidence/%s.json" % pid,
                "replay_cmd_template": "./check %s --replay {path}" % pid,
                "engine": "pvverif",
                "level_claimed": {"category": "exploration", "text": text, "design_ref": ref},
                "level_note": note,
                "technique": tech,
            })
        else:
            na.append({"property_id": pid, "reason": NOT_YET})
    manifest = {
        "version": 1,
        "setup_cmd": "./setup.sh",
        "hooks": {
            "guard": "PYVAPORATION_VERIF",
            "enable": "no source hooks: every observation is made from outside the package (instance-level method "
                      "wrappers, module attribute patching inside the harness process); the guard variable is unused by the sources",
            "baseline_off_cmd": "cd /repo && /venv/bin/python -m pytest -ra -q -p no:cacheprovider --timeout=900 --continue-on-collection-errors",
            "source_commits": [],
            "add_only": True,
        },
        "engines": [{
            "name": "pvverif",
            "path": "pvverif/",
            "serves_properties": sorted(CHECKS),
            "kind_free_text": "Hypothesis 6.168 property-based testing (given / rule-based stateful machines), sharded over 16 "
                              "processes, explicit oracles per property, shrinking to JSON replay files",
        }],
        "checks": checks,
        "notes": "All checks import the package from /repo's working tree in fresh processes; VERIF_SEED and VERIF_TIER are honoured; "
                 "exit 0 = held, 1 = VIOLATION line printed, 2 = harness error / inconclusive (never a VIOLATION line). "
                 "Known findings live in known_findings.json.",
        "not_applicable": na,
    }
    with open(os.path.join(ROOT, "MANIFEST.json"), "w") as f:
        json.dump(manifest, f, indent=1)
        f.write("\n")
    print("wrote MANIFEST.json: %d checks, %d not_applicable" % (len(checks), len(na)))


if __name__ == "__main__":
    main()
