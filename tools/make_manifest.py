#!/usr/bin/env python3
"""Regenerates /verif/MANIFEST.json from the table below (kept in one place so it stays valid)."""
import json
import os

ROOT = os.path.dirname(os.path.dirname(os.path.abspath(__file__)))

# id -> (technique, level text, level note, design ref)
CHECKS = {
    "C15": (
        "Hypothesis property test: round-trip + reference conversion law + monotonicity/ratio-law/rejection oracles",
        "Generated-input search (Hypothesis, 16 shards) over fractions in [0,1] incl. end points, subnormals and values "
        "within 1e-12 of the ends, and molar-mass pairs with ratio up to 1e3; oracle = inverse round trip with an "
        "a-priori rounding bound, an independent reference formula, strict monotonicity for resolvable gaps, the "
        "cancellation-free ratio law and rejection of every outside value. Exploration, not proof: holds on all cases generated.",
        "IEEE-754 doubles; tolerance 32 eps x max(M1/M2, M2/M1); adjacent floats may legitimately collide so strict "
        "monotonicity is asserted only for gaps above 64 eps x mass ratio.",
        "DESIGN.md section 6 C15",
    ),
}

NOT_YET = "check not built yet in this round (planned, see DESIGN.md section 6)"


def main():
    props = [json.loads(l) for l in open(os.path.join(ROOT, "properties.jsonl"))]
    checks = []
    na = []
    for p in props:
        pid = p["id"]
        if pid in CHECKS:
            tech, text, note, ref = CHECKS[pid]
            checks.append({
                "property_id": pid,
                "quick_cmd": "./check %s --tier quick" % pid,
                "thorough_cmd": "./check %s --tier thorough" % pid,
                "evidence_file": "evidence/%s.json" % pid,
                "replay_cmd_template": "./check %s --replay {path}" % pid,
                "engine": "pvverif",
                "level_claimed": {"category": "exploration", "text": text, "design_ref": ref},
                "level_note": note,
                "technique": tech,
            })
        else:
            na.append({"property_id": pid, "reason": NOT_YET})
    manifest = {
        "version": 1,
        "setup_cmd": "./setup.sh",
        "hooks": {
            "guard": "PYVAPORATION_VERIF",
            "enable": "no source hooks: every observation is made from outside the package (instance-level method "
                      "wrappers, module attribute patching inside the harness process); the guard variable is unused by the sources",
            "baseline_off_cmd": "cd /repo && /venv/bin/python -m pytest -ra -q -p no:cacheprovider --timeout=900 --continue-on-collection-errors",
            "source_commits": [],
            "add_only": True,
        },
        "engines": [{
            "name": "pvverif",
            "path": "pvverif/",
            "serves_properties": sorted(CHECKS),
            "kind_free_text": "Hypothesis 6.168 property-based testing (given / stateful machines / target), sharded over 16 "
                              "processes, explicit oracles per property, shrinking to JSON replay files",
        }],
        "checks": checks,
        "notes": "All checks import the package from /repo's working tree in fresh processes; VERIF_SEED and VERIF_TIER are honoured; "
                 "exit 0 = held, 1 = VIOLATION line printed, 2 = harness error / inconclusive (never a VIOLATION line). "
                 "Known findings live in known_findings.json.",
        "not_applicable": na,
    }
    with open(os.path.join(ROOT, "MANIFEST.json"), "w") as f:
        json.dump(manifest, f, indent=1)
        f.write("\n")
    print("wrote MANIFEST.json: %d checks, %d not_applicable" % (len(checks), len(na)))


if __name__ == "__main__":
    main()
