#!/bin/bash
# usage: tools/mutant_run.sh <patch | "sed@@EXPR@@FILE" | none> <ID> [tier] [seed]
# Applies a change to a scratch copy of /repo's working tree (outside /repo and /verif), runs the
# property's check against it (PVVERIF_REPO) with evidence/replays redirected, prints the verdict,
# removes the copy.
set -u
PATCH=$1; ID=$2; TIER=${3:-quick}; SEED=${4:-1}
VERIF=$(dirname "$(dirname "$(readlink -f "$0")")")
W=$(mktemp -d /tmp/pvmut.XXXXXX)
trap 'rm -rf "$W"' EXIT
mkdir -p "$W/repo" "$W/out"
rsync -a --exclude .git --exclude '*.pyc' --exclude __pycache__ /repo/ "$W/repo/"
if [[ "$PATCH" == sed@@* ]]; then
  REST=${PATCH#sed@@}; EXPR=${REST%%@@*}; FILE=${REST##*@@}
  sed -i "$EXPR" "$W/repo/$FILE" || exit 3
elif [[ "$PATCH" != none ]]; then
  PATCH=$(readlink -f "$PATCH")
  (cd "$W/repo" && patch -p1 -s < "$PATCH") || { echo "PATCH-FAILED"; exit 3; }
fi
PVVERIF_REPO="$W/repo" PVVERIF_OUT="$W/out" VERIF_SEED=$SEED "$VERIF/check" "$ID" --tier "$TIER" > "$W/log" 2>&1
RC=$?
if [ -n "${KEEP_REPLAY:-}" ] && [ $RC = 1 ]; then
  mkdir -p "$KEEP_REPLAY"; for f in "$W"/out/replays/*.json; do cp "$f" "$KEEP_REPLAY/${KEEP_NAME:-$(basename "$PATCH" .diff)}.json"; done
fi
grep -E "VIOLATION|message|KNOWN-FINDING|HARNESS" "$W/log" | head -5
echo "mutant=$(basename "$PATCH") check=$ID tier=$TIER seed=$SEED exit=$RC"
exit $RC
