#!/bin/bash
# usage: tools/seed_matrix.sh [seed] [nocorpus]
# Runs every kept seeded change (seeded/*/patch.diff) and every reverted fix against the quick check(s) listed in
# its meta.json (caught_by_quick_checks) / its property, and prints caught / MISSED.  With "nocorpus" the saved replay
# cases are not used, so detection is by generation only.
cd "$(dirname "$(dirname "$(readlink -f "$0")")")"
SEED=${1:-1}
[ "${2:-}" = nocorpus ] && export PVVERIF_NO_CORPUS=1
# ONLY=<glob> restricts the run to matching seed names / reverted fixes, e.g. ONLY='*-[IJKL]'
for s in seeded/*/; do
  n=$(basename $s); ID=${n%%-*}
  case "$n" in ${ONLY:-*}) ;; *) continue;; esac
  RES=$(tools/mutant_run.sh $s/patch.diff $ID quick $SEED | tail -1)
  case "$RES" in *exit=1*) echo "$n $ID caught";; *exit=0*) echo "$n $ID MISSED";; *) echo "$n $ID ?? $RES";; esac
done
declare -A REV=( [D2]=C08 [D3]=C08 [D4]=C08 [D5]=C03 [D6]=C03 [D8]=C10 [D9]=C16 [D10]=C07 [D11]=C07 [D12a]=C18 [D12b]=C18 [D12c]=C18 [D13]=C12 )
for d in D2 D3 D4 D5 D6 D8 D9 D10 D11 D12a D12b D12c D13; do
  case "$d" in ${ONLY:-*}) ;; *) continue;; esac
  RES=$(tools/mutant_run.sh tools/mutants/revert_$d.diff ${REV[$d]} quick $SEED | tail -1)
  case "$RES" in *exit=1*) echo "revert_$d ${REV[$d]} caught";; *) echo "revert_$d ${REV[$d]} MISSED ($RES)";; esac
done
