#!/bin/bash
# usage: [IDS="C01 C02"] tools/run_all.sh [tier] [seed...]   - runs every (or the named) registered check sequentially, one line per check
cd "$(dirname "$(dirname "$(readlink -f "$0")")")"
TIER=${1:-quick}; shift
SEEDS=${@:-1}
for S in $SEEDS; do
  for ID in ${IDS:-C01 C02 C03 C04 C05 C06 C07 C08 C09 C10 C11 C12 C13 C14 C15 C16 C17 C18 C19 C20}; do
    T0=$(date +%s)
    VERIF_SEED=$S ./check $ID --tier $TIER > /tmp/runall-$ID-$S.log 2>&1; RC=$?
    echo "seed=$S $ID exit=$RC $(( $(date +%s) - T0 ))s $(grep -E '^  message|HARNESS' /tmp/runall-$ID-$S.log | head -2 | cut -c1-200)"
  done
done
