#!/bin/bash
# Offline setup: verify that /venv carries what the checks import; install hypothesis from the
# local wheelhouse into /verif/.deps only if it is missing after a restore.
cd "$(dirname "$(readlink -f "$0")")" || exit 2
PY=${PVVERIF_PYTHON:-/venv/bin/python}
if ! "$PY" -c "import hypothesis" 2>/dev/null; then
  "$PY" -m pip install --no-index --find-links /opt/veriftools/wheels --target ./.deps hypothesis || exit 2
fi
PYTHONPATH=./.deps:${PYTHONPATH:-} "$PY" - <<'PYEOF' || exit 2
import sys
sys.path.insert(0, "/repo")
import hypothesis, numpy, scipy, pandas, attr, joblib
import pyvaporation
print("setup ok: hypothesis", hypothesis.__version__, "numpy", numpy.__version__, "pyvaporation", pyvaporation.__version__)
PYEOF
mkdir -p evidence replays
